----------------------------- MODULE Trace_Codec -----------------------------
(* Trace validation for C08 with the real constants (Page = 4096, Header = 36).                           *)
(*   {"a":"enc","ty":..,"n":n,"d":d,"ok":b,"limit":b,"w":written,"rt":b}   Code::encode of a value whose    *)
(*        encoding is n bytes into a destination of d bytes: ok, whether the error was the size-limit      *)
(*        error, bytes written on success, and whether decode(encode(x)) = x bit for bit                   *)
(*   {"a":"batch","room":r,"max":m,"lens":[..],"obs":[[written,klen,vlen,rt,miss],..],"kl":k}              *)
(*        entries of these payload lengths pushed in order into an empty flusher buffer; per entry:        *)
(*        was it written to the device, the lengths its header records, does a load return the original    *)
(*        bit for bit, is it a miss                                                                          *)
EXTENDS Codec, Json, IOUtils, TLCExt, FiniteSets, TLC

VARIABLES l, bad
Rec == ndJsonDeserialize(IOEnv.TRACE)

TraceInit == l = 1 /\ bad = {}

TraceNext ==
    /\ l <= Len(Rec)
    /\ LET e == Rec[l] IN
       CASE e.a = "enc" ->
              bad' = (IF EncodeOK(e.n, e.d) /\ ~(e.ok /\ e.w = e.n /\ e.rt) THEN {<<"C08", "roundtrip_or_length", e.ty>>} ELSE {})
                     \cup (IF ~EncodeOK(e.n, e.d) /\ (e.ok \/ ~e.limit) THEN {<<"C08", "no_size_limit_error", e.ty>>} ELSE {})
         [] e.a = "batch" ->
              LET P == Pack(e.room, 0, e.max, e.lens, <<>>) IN
              IF e.compressed
              THEN \* the stored length is the compressor's business: a written entry must load bit-exactly, an
                   \* unwritten one must be a miss
                   bad' = UNION { LET o == e.obs[i] IN
                                  (IF o[1] = 1 /\ o[4] # 1 THEN {<<"C08", "compressed_entry_not_restored_exactly", i>>} ELSE {})
                                  \cup (IF o[1] = 0 /\ o[5] = 0 THEN {<<"C08", "unwritten_entry_visible", i>>} ELSE {})
                                  \cup (IF P[i].ok /\ o[1] = 0 THEN {<<"C08", "fitting_entry_rejected", i>>} ELSE {})
                                  : i \in DOMAIN e.lens }
              ELSE
              bad' = UNION {
                  LET o == e.obs[i] IN
                  (IF P[i].ok /\ ~(o[1] = 1 /\ o[2] = e.kl /\ o[3] = e.lens[i] - e.kl /\ o[4] = 1)
                   THEN {<<"C08", "accepted_entry_not_stored_exactly", i>>} ELSE {})
                  \cup (IF ~P[i].ok /\ (o[1] = 1 \/ o[5] = 0) THEN {<<"C08", "unfit_entry_not_rejected_as_a_whole", i>>} ELSE {})
                  : i \in DOMAIN e.lens }
         [] OTHER -> bad' = {}
    /\ l' = l + 1

TraceSpec == TraceInit /\ [][TraceNext]_<<l, bad>>
NoViolation_C08 == bad = {}
Consumed == PrintT(<<"CONSUMED", TLCGet("stats").diameter - 1, Len(Rec)>>) /\ TRUE
==============================================================================
