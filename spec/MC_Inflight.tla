----------------------------- MODULE MC_Inflight -----------------------------
(***************************************************************************)
(* Bounded instance of Inflight.                                           *)
(*   Grain = "run":  tasks advance by TaskRun (what the harness can drive) *)
(*                   - used for invariants, liveness and edge emission     *)
(*   Grain = "step": tasks advance one poll step at a time, interleaved    *)
(*                   with user operations (the races a multi-threaded      *)
(*                   caller can produce)                                   *)
(***************************************************************************)
EXTENDS Inflight, Json

CONSTANTS Kinds, OptOutcomes, ReqOutcomes, MaxSteps, MaxUserOps, Grain, Emit, EnvOps

VARIABLES hist, steps, uops

mcvars == <<vars, hist, steps, uops>>

Seq2(f) == [i \in 1 .. Cardinality(DOMAIN f) |-> f[i]]

\* what the driver can see: every caller's answer, the cached version per key, which origin
\* closures are being executed, which disk lookups are being executed
Obs == [cal |-> [c \in Callers |-> <<S.cal[c].st, S.cal[c].v>>],
        mem |-> [k \in Keys |-> S.mem[k]],
        run |-> [c \in Callers |-> IF S.req[c] = "polled" /\ S.reqOut[c].kind = "none" THEN 1 ELSE 0],
        orun |-> [c \in Callers |-> IF S.opt[c] = "polled" /\ S.optOut[c].kind = "none" THEN 1 ELSE 0]]

MCInit == Init /\ steps = 0 /\ uops = 0 /\ hist = IF Emit THEN <<out>> ELSE <<>>

\* callers arrive in order (symmetry)
NextCaller(c) == \A d \in Callers : d < c => S.cal[d].st # "idle"

Env ==
    \/ \E c \in Callers, k \in Keys, kind \in Kinds : NextCaller(c) /\ Call(c, k, kind) /\ UNCHANGED uops
    \/ \E c \in Callers, o \in OptOutcomes : ResolveOpt(c, o) /\ UNCHANGED uops
    \/ \E c \in Callers, o \in ReqOutcomes : ResolveReq(c, o) /\ UNCHANGED uops
    \/ "dropc" \in EnvOps /\ \E c \in Callers : DropCaller(c) /\ UNCHANGED uops
    \/ "cancel" \in EnvOps /\ \E c \in Callers : Cancel(c) /\ UNCHANGED uops
    \/ "ins" \in EnvOps /\ uops < MaxUserOps /\ \E k \in Keys : UserInsert(k) /\ uops' = uops + 1
    \/ "rem" \in EnvOps /\ uops < MaxUserOps /\ \E k \in Keys : UserRemove(k) /\ uops' = uops + 1

Tasks ==
    \E c \in Callers : (IF Grain = "run" THEN TaskRun(c) ELSE TaskStep(c)) /\ UNCHANGED uops

MCNext ==
    /\ steps < MaxSteps
    /\ (Env \/ Tasks)
    /\ steps' = steps + 1
    /\ IF Emit
       THEN /\ hist' = Append(hist, out')
            /\ PrintT(ToJson([ops |-> hist', obs |-> Obs']))
       ELSE hist' = hist

MCSpec == MCInit /\ [][MCNext]_mcvars

MCView == <<S, steps, uops>>

\* liveness: no step bound; the workload is finite because callers, user operations and outcomes are
LiveNext == (Env \/ Tasks) /\ UNCHANGED <<hist, steps>>
LiveSpec ==
    /\ MCInit /\ [][LiveNext]_mcvars
    /\ \A c \in Callers : WF_mcvars(TaskRun(c) /\ UNCHANGED <<hist, steps, uops>>)
    /\ \A c \in Callers : WF_mcvars((\E o \in OptOutcomes : ResolveOpt(c, o)) /\ UNCHANGED <<hist, steps, uops>>)
    /\ \A c \in Callers : WF_mcvars((\E o \in ReqOutcomes : ResolveReq(c, o)) /\ UNCHANGED <<hist, steps, uops>>)
EveryCallerAnswered == \A c \in Callers : Pending(c) ~> ~Pending(c)
===============================================================================
