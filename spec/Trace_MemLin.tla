---------------------------- MODULE Trace_MemLin ----------------------------
(* Trace validation for C02: the harness (`harness mem-conc`) runs random programs on real threads  *)
(* against one shared cache and logs, in the order of a global atomic stamp,                          *)
(*   {"e":"iw","id":n,"k":k,"v":v}   insert (v > 0) or remove (v = 0) invoked                        *)
(*   {"e":"rw","id":n}               ... responded                                                    *)
(*   {"e":"ir","id":n,"k":k}         lookup (get / get_or_fetch / contains / touch) invoked          *)
(*   {"e":"rr","id":n,"v":v,"foreign":b,"intact":b}   ... responded with version v (0 = miss)         *)
(*   {"e":"h","intact":b}            a held handle was re-read (C02: handles stay readable, unchanged)*)
(*   {"e":"reset"}                   next run                                                         *)
EXTENDS MemLin, Json, IOUtils, TLCExt

VARIABLE l
tvars == <<mvars, l>>
Rec == ndJsonDeserialize(IOEnv.TRACE)

TraceInit == MInit /\ l = 1

TraceNext ==
    /\ l <= Len(Rec)
    /\ LET e == Rec[l] IN
       CASE e.e = "iw" -> InvWrite(e.id, e.k, e.v)
         [] e.e = "rw" -> RespWrite(e.id)
         [] e.e = "ir" -> InvRead(e.id, e.k)
         [] e.e = "rr" -> /\ RespRead(e.id, e.v, e.foreign)
         [] e.e = "h" -> /\ UNCHANGED <<done, begun, dead, openW, openR>>
                         /\ bad' = IF e.intact THEN {} ELSE {<<"C02", "handle_changed">>}
         [] e.e = "reset" -> /\ done' = [k \in Keys |-> {}] /\ begun' = [k \in Keys |-> {}]
                             /\ dead' = [k \in Keys |-> {}] /\ openW' = {} /\ openR' = {} /\ bad' = {}
    /\ l' = l + 1

TraceSpec == TraceInit /\ [][TraceNext]_tvars
NoViolation_C02 == \A b \in bad : b[1] # "C02"
NoViolation_C17 == \A b \in bad : b[1] # "C17"
Consumed == PrintT(<<"CONSUMED", TLCGet("stats").diameter - 1, Len(Rec)>>) /\ TRUE
=============================================================================
