------------------------------- MODULE PinRace -------------------------------
(***************************************************************************)
(* The handle protocol of the in-memory cache under real threads (C18):    *)
(* raw.rs `RawCacheEntry::drop` / `clone`, the lookup path of              *)
(* `RawCache::get`, and the LRU pin list (lru.rs acquire / release).       *)
(*                                                                         *)
(* One record of one key under LRU.  What matters is which steps are       *)
(* atomic in the code:                                                     *)
(*   drop   = refs.fetch_sub(1) WITHOUT any lock; only if the result is 0  *)
(*            the dropping thread then takes the shard write lock and      *)
(*            calls release (unpin).  Between the two steps other threads  *)
(*            run.                                                         *)
(*   clone  = refs.fetch_add(1) without any lock (needs a live handle)     *)
(*   get    = under the shard write lock: index probe, refs += 1, acquire  *)
(*            (pin if not pinned)                                          *)
(*   remove = under the shard write lock: record leaves index and          *)
(*            eviction container (a pinned record too), refs += 1 for the  *)
(*            returned handle                                              *)
(*   evict  = under the shard write lock: only records that are not        *)
(*            pinned are candidates                                        *)
(* `Recheck` selects what release does when it finally holds the lock:     *)
(* TRUE  = unpin only if refs is (still) 0  - the repaired code;           *)
(* FALSE = unpin unconditionally            - the code as found (F10).     *)
(*                                                                         *)
(* The driver starts each thread's operation while the shard lock is held  *)
(* by a blocker, so every lock-free first step happens in start order and  *)
(* every locked step after the blocker lets go, in an order the lock       *)
(* chooses (any order here).                                               *)
(***************************************************************************)
EXTENDS Naturals, Sequences, FiniteSets, TLC

CONSTANTS Threads,      \* set of thread ids
          Recheck       \* BOOLEAN, see above

VARIABLES
    inidx,      \* the record is in the index (a lookup finds it)
    refs,       \* number of live handles
    pinned,     \* in the LRU pin list
    op,         \* [Threads -> {"none","drop","get","clone","remove"}] the operation each thread was started with
    pc,         \* [Threads -> {"idle","queued","done"}]
    has,        \* [Threads -> BOOLEAN]  thread owns a live handle now
    looked,     \* [Threads -> BOOLEAN]  ... that was returned by a lookup (or is a clone of such a handle)
    phase,      \* "start" (lock blocked, operations being started) | "run" (lock released) | "end"
    evicted     \* the pressure at the end evicted the record

vars == <<inidx, refs, pinned, op, pc, has, looked, phase, evicted>>

\* initially: the record is resident, every thread of Owners holds one handle; the handles stem from lookups
\* (so the record is pinned)
Init(owners) ==
    /\ inidx = TRUE /\ refs = Cardinality(owners) /\ pinned = (owners # {})
    /\ op = [t \in Threads |-> "none"] /\ pc = [t \in Threads |-> "idle"]
    /\ has = [t \in Threads |-> t \in owners] /\ looked = [t \in Threads |-> t \in owners]
    /\ phase = "start" /\ evicted = FALSE

\* --- first (lock-free) steps, in the order the driver starts the threads -----------------------
StartDrop(t) ==
    /\ phase = "start" /\ pc[t] = "idle" /\ has[t]
    /\ refs' = refs - 1
    /\ has' = [has EXCEPT ![t] = FALSE] /\ looked' = [looked EXCEPT ![t] = FALSE]
    /\ op' = [op EXCEPT ![t] = "drop"]
    \* only the thread that brought the count to 0 goes on to release
    /\ pc' = [pc EXCEPT ![t] = IF refs - 1 = 0 THEN "queued" ELSE "done"]
    /\ UNCHANGED <<inidx, pinned, phase, evicted>>

StartClone(t, from) ==
    /\ phase = "start" /\ pc[t] = "idle" /\ ~has[t] /\ has[from] /\ pc[from] = "idle"
    /\ refs' = refs + 1
    /\ has' = [has EXCEPT ![t] = TRUE] /\ looked' = [looked EXCEPT ![t] = looked[from]]
    /\ op' = [op EXCEPT ![t] = "clone"] /\ pc' = [pc EXCEPT ![t] = "done"]
    /\ UNCHANGED <<inidx, pinned, phase, evicted>>

StartLocked(t, o) ==
    /\ phase = "start" /\ pc[t] = "idle" /\ ~has[t] /\ o \in {"get", "remove"}
    /\ op' = [op EXCEPT ![t] = o] /\ pc' = [pc EXCEPT ![t] = "queued"]
    /\ UNCHANGED <<inidx, refs, pinned, has, looked, phase, evicted>>

\* --- locked steps ------------------------------------------------------------------------------
\* effect of thread t's locked step on <<inidx, refs, pinned, has[t], looked[t]>>
Locked(t) ==
    /\ phase = "run" /\ pc[t] = "queued"
    /\ pc' = [pc EXCEPT ![t] = "done"]
    /\ CASE op[t] = "drop" ->
              /\ pinned' = IF inidx /\ pinned /\ (~Recheck \/ refs = 0) THEN FALSE ELSE pinned
              /\ UNCHANGED <<inidx, refs, has, looked>>
         [] op[t] = "get" ->
              IF inidx
              THEN /\ refs' = refs + 1 /\ pinned' = TRUE
                   /\ has' = [has EXCEPT ![t] = TRUE] /\ looked' = [looked EXCEPT ![t] = TRUE]
                   /\ UNCHANGED inidx
              ELSE UNCHANGED <<inidx, refs, pinned, has, looked>>
         [] op[t] = "remove" ->
              IF inidx
              THEN /\ inidx' = FALSE /\ pinned' = FALSE /\ refs' = refs + 1
                   /\ has' = [has EXCEPT ![t] = TRUE] /\ UNCHANGED looked
              ELSE UNCHANGED <<inidx, refs, pinned, has, looked>>
    /\ UNCHANGED <<op, phase, evicted>>

Unblock == phase = "start" /\ phase' = "run" /\ UNCHANGED <<inidx, refs, pinned, op, pc, has, looked, evicted>>

\* enough inserts to push every unpinned record out
Pressure ==
    /\ phase = "run" /\ \A t \in Threads : pc[t] # "queued"
    /\ phase' = "end"
    /\ evicted' = (inidx /\ ~pinned)
    /\ inidx' = (inidx /\ pinned)
    /\ UNCHANGED <<refs, pinned, op, pc, has, looked>>

Next ==
    \/ \E t \in Threads : StartDrop(t) \/ (\E f \in Threads : StartClone(t, f)) \/ (\E o \in {"get", "remove"} : StartLocked(t, o))
    \/ Unblock
    \/ \E t \in Threads : Locked(t)
    \/ Pressure

-------------------------------------------------------------------------------
\* C18: under LRU an entry that has been looked up is not chosen as an eviction victim until the last handle to
\* it is dropped
NoHeldLookedUpVictim == evicted => \A t \in Threads : ~(has[t] /\ looked[t])
\* nothing leaks: with no handle outstanding the record is evictable again
NoLeak == (phase = "end" /\ inidx /\ \A t \in Threads : ~has[t]) => FALSE
RefsCount == refs = Cardinality({t \in Threads : has[t]})
PinnedIffHeld == (phase = "end" /\ inidx) => (pinned <=> refs > 0)
Inv == NoHeldLookedUpVictim /\ NoLeak /\ RefsCount /\ PinnedIffHeld
===============================================================================
