----------------------------- MODULE Trace_PinRace -----------------------------
(***************************************************************************)
(* Trace validation for the handle protocol under real threads (C18).      *)
(* `harness pin-race` holds the shard lock through a blocker (a lookup of  *)
(* a key whose equality test waits for a gate), starts the operations of   *)
(* the script one by one (each in its own thread; the lock-free first step *)
(* of each happens at once, the locked step queues), opens the gate, joins *)
(* the threads, then inserts until every unpinned record is evicted.       *)
(*   {"e":"init","owners":[..]}                                            *)
(*   {"e":"start","t":t,"op":"drop"|"get"|"clone"|"remove","from":f}       *)
(*   {"e":"unblock"}                                                       *)
(*   {"e":"joined","hits":[t..]}      lookups that returned a handle       *)
(*   {"e":"pressure","evicted":b,"holders":[t..],"lookers":[t..]}          *)
(* The order in which the queued threads got the lock is not logged: TLC   *)
(* tries all orders (one composite step at "joined").  The C18 tag is      *)
(* judged on the observation alone: the record was evicted while a thread  *)
(* held a handle it had obtained by a lookup.  Everything else (which      *)
(* lookups hit, whether the model agrees about the eviction) is            *)
(* conformance: a trace no order explains is `drift`.                      *)
(***************************************************************************)
EXTENDS PinRace, Json, IOUtils, TLCExt, SequencesExt

VARIABLES l, bad

tvars == <<vars, l, bad>>

Rec == ndJsonDeserialize(IOEnv.TRACE)

SeqToSet(s) == {s[i] : i \in DOMAIN s}

\* the locked step of thread t as a function on the record state r = [inidx, refs, pinned, has, looked]
Step(r, t) ==
    CASE op[t] = "drop" ->
            [r EXCEPT !.pinned = IF r.inidx /\ r.pinned /\ (~Recheck \/ r.refs = 0) THEN FALSE ELSE @]
      [] op[t] = "get" ->
            IF r.inidx THEN [r EXCEPT !.refs = @ + 1, !.pinned = TRUE, !.has = @ \cup {t}, !.looked = @ \cup {t}] ELSE r
      [] op[t] = "remove" ->
            IF r.inidx THEN [r EXCEPT !.inidx = FALSE, !.pinned = FALSE, !.refs = @ + 1, !.has = @ \cup {t}] ELSE r
      [] OTHER -> r

RECURSIVE RunOrder(_, _)
RunOrder(r, ts) == IF ts = <<>> THEN r ELSE RunOrder(Step(r, Head(ts)), Tail(ts))

Queued == {t \in Threads : pc[t] = "queued"}
Orders == {s \in [1 .. Cardinality(Queued) -> Queued] : \A i, j \in DOMAIN s : i # j => s[i] # s[j]}

TraceInit == Init({}) /\ l = 1 /\ bad = {}

TraceNext ==
    /\ l <= Len(Rec)
    /\ LET e == Rec[l] IN
       CASE e.e = "init" ->
              /\ LET ow == SeqToSet(e.owners) IN
                 /\ inidx' = TRUE /\ refs' = Cardinality(ow) /\ pinned' = (ow # {})
                 /\ op' = [t \in Threads |-> "none"] /\ pc' = [t \in Threads |-> "idle"]
                 /\ has' = [t \in Threads |-> t \in ow] /\ looked' = [t \in Threads |-> t \in ow]
                 /\ phase' = "start" /\ evicted' = FALSE
              /\ bad' = {}
         [] e.e = "start" ->
              /\ CASE e.op = "drop" -> StartDrop(e.t)
                   [] e.op = "clone" -> StartClone(e.t, e.from)
                   [] OTHER -> StartLocked(e.t, e.op)
              /\ bad' = {}
         [] e.e = "unblock" -> Unblock /\ bad' = {}
         [] e.e = "joined" ->
              \* all queued threads ran, in some order; the lookups that hit are logged
              /\ \E s \in Orders :
                    LET r0 == [inidx |-> inidx, refs |-> refs, pinned |-> pinned,
                               has |-> {t \in Threads : has[t]}, looked |-> {t \in Threads : looked[t]}]
                        r == RunOrder(r0, s) IN
                    /\ inidx' = r.inidx /\ refs' = r.refs /\ pinned' = r.pinned
                    /\ has' = [t \in Threads |-> t \in r.has] /\ looked' = [t \in Threads |-> t \in r.looked]
                    /\ {t \in Threads : op[t] = "get" /\ t \in r.has} = SeqToSet(e.hits)
              /\ pc' = [t \in Threads |-> IF pc[t] = "queued" THEN "done" ELSE pc[t]]
              /\ UNCHANGED <<op, phase, evicted>> /\ bad' = {}
         [] e.e = "pressure" ->
              /\ Pressure
              /\ bad' = (IF e.evicted /\ SeqToSet(e.holders) \cap SeqToSet(e.lookers) # {}
                         THEN {<<"C18", "held_looked_up_entry_evicted">>} ELSE {})
                        \cup (IF e.evicted # evicted' THEN {<<"drift", "eviction">>} ELSE {})
    /\ l' = l + 1

TraceSpec == TraceInit /\ [][TraceNext]_tvars

NoViolation_C18 == \A b \in bad : b[1] # "C18"
NoDrift == bad = {}
TraceInv == Inv

Consumed ==
    /\ PrintT(<<"CONSUMED", TLCGet("stats").diameter - 1, Len(Rec)>>)
    /\ TRUE
===============================================================================
