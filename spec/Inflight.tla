------------------------------- MODULE Inflight -------------------------------
(***************************************************************************)
(* Fetch coalescing of foyer-memory (inflight.rs, RawCache::get_or_fetch_  *)
(* inner, RawFetch::poll) - properties C06 and C11.                        *)
(*                                                                         *)
(* Callers are numbered; each makes one call.  kind of a call:             *)
(*   "get"    optional fetch only  (HybridCache::get: disk lookup)         *)
(*   "fetch"  required fetch only  (Cache::get_or_fetch: origin)           *)
(*   "hfetch" optional + required  (HybridCache::get_or_fetch)             *)
(* The fetch task of a leading caller c is task[c]; it is spawned on a     *)
(* runtime of its own, so the environment can run it (TaskRun) or cancel   *)
(* it (Cancel) individually.  The outcome of the disk lookup (optional     *)
(* slot of the leader) and of every caller's origin closure (required      *)
(* slot) is chosen by the environment (ResolveOpt / ResolveReq).           *)
(*                                                                         *)
(* The whole state is one record S so that a task step is a function       *)
(* TStep(S,c) : used one step at a time (TaskStep, for the interleaving    *)
(* analysis) and iterated to quiescence (TaskRun, what one turn of the     *)
(* task's executor does - the granularity the harness can drive).          *)
(* Versions are numbered by creation (user insert, disk hit, origin ok).   *)
(***************************************************************************)
EXTENDS Naturals, Sequences, FiniteSets, TLC

CONSTANTS Keys, Callers

VARIABLES S, out

vars == <<S, out>>

NoInfl == [id |-> 0, ws |-> <<>>, f |-> 0]
NoTask == [st |-> "none", key |-> 0, id |-> 0, hasOpt |-> FALSE, fr |-> 0, cur |-> 0,
           res |-> "none", ns |-> <<>>, woken |-> FALSE]
Range(s) == {s[i] : i \in DOMAIN s}

S0 == [ mem    |-> [k \in Keys |-> 0],
        uval   |-> [k \in Keys |-> 0],      \* value of the last completed user insert, 0 after a user remove
        infl   |-> [k \in Keys |-> NoInfl],
        closed |-> {},
        nid    |-> 1,
        nv     |-> 0,
        task   |-> [c \in Callers |-> NoTask],
        cal    |-> [c \in Callers |-> [st |-> "idle", key |-> 0, kind |-> "none", v |-> 0, by |-> "none"]],
        opt    |-> [c \in Callers |-> "none"],     \* none / built / polled / done  (leader's disk lookup future)
        optOut |-> [c \in Callers |-> [kind |-> "none", v |-> 0]],
        req    |-> [c \in Callers |-> "none"],     \* none / held / polled / done / dropped (origin closure / future)
        reqOut |-> [c \in Callers |-> [kind |-> "none", v |-> 0]] ]

HasOpt(kind) == kind \in {"get", "hfetch"}
HasReq(kind) == kind \in {"fetch", "hfetch"}

-------------------------------------------------------------------------------
(* helpers on the state record                                               *)

RECURSIVE Answer(_, _, _, _, _)
\* deliver result (st, v) to the waiters ws; `by` records who answered (C11)
Answer(T, ws, st, v, by) ==
    IF ws = <<>> THEN T
    ELSE LET w == Head(ws)
             T1 == IF T.cal[w].st = "pending"
                   THEN [T EXCEPT !.cal[w].st = st, !.cal[w].v = v, !.cal[w].by = by]
                   ELSE T IN
         Answer(T1, Tail(ws), st, v, by)

\* RawCacheShard::emplace as far as in-flight state is concerned: take the key's entry whatever
\* its id, close it, answer all its waiters with the inserted entry
Emplace(T, k, v, by) ==
    LET e == T.infl[k]
        T1 == IF e.id = 0 THEN T
              ELSE Answer([T EXCEPT !.infl[k] = NoInfl, !.closed = @ \cup {e.id},
                                    !.req = IF e.f # 0 THEN [@ EXCEPT ![e.f] = "dropped"] ELSE @],
                          e.ws, "val", v, by) IN
    [T1 EXCEPT !.mem[k] = v]

\* the task is finished or dropped: the futures and closures it still owns are dropped with it
Release(T, c) ==
    LET t == T.task[c] IN
    [T EXCEPT !.opt[c] = IF @ \in {"built", "polled"} THEN "done" ELSE @,
              !.req = [d \in Callers |->
                          IF (d = t.cur \/ d = t.fr) /\ T.req[d] \in {"held", "polled"}
                          THEN "dropped" ELSE T.req[d]]]
Done(T, c) == [Release(T, c) EXCEPT !.task[c].st = "done", !.task[c].woken = FALSE]

\* RawFetch::try_set_required; noFetch = what to tell the waiters if nobody supplied an origin closure
SetRequired(T, c, noFetch) ==
    LET t == T.task[c]
        k == t.key
        e == T.infl[k] IN
    IF t.fr # 0
    THEN [T EXCEPT !.task[c].st = "req", !.task[c].cur = t.fr, !.task[c].fr = 0]
    ELSE IF e.id = 0 \/ e.id # t.id THEN Done(T, c)
    ELSE IF e.f # 0
         THEN [T EXCEPT !.infl[k].f = 0, !.task[c].st = "req", !.task[c].cur = e.f]
         ELSE [T EXCEPT !.infl[k] = NoInfl, !.closed = @ \cup {e.id},
                        !.task[c].st = "notify", !.task[c].res = noFetch, !.task[c].ns = e.ws]

\* RawFetch::handle_error
HandleError(T, c) ==
    LET t == T.task[c]
        e == T.infl[t.key] IN
    IF e.id # 0 /\ e.id = t.id
    THEN [T EXCEPT !.infl[t.key] = NoInfl, !.closed = @ \cup {e.id},
                   !.req = IF e.f # 0 THEN [@ EXCEPT ![e.f] = "dropped"] ELSE @,
                   !.task[c].st = "notify", !.task[c].res = "err", !.task[c].ns = e.ws]
    ELSE Done(T, c)

\* is the task able to take a step right now (it has been woken and is not finished)
Runnable(T, c) == T.task[c].woken /\ T.task[c].st \in {"init", "opt", "req", "notify"}

\* one step of RawFetch::poll
TStep(T, c) ==
    LET t == T.task[c]
        k == t.key IN
    CASE t.st = "init" ->
            IF t.hasOpt THEN [T EXCEPT !.task[c].st = "opt", !.opt[c] = "built"]
            ELSE SetRequired(T, c, "none")
      [] t.st = "opt" ->
            IF t.id \in T.closed THEN Done(T, c)
            ELSE IF T.optOut[c].kind = "none"
                 THEN [T EXCEPT !.opt[c] = "polled", !.task[c].woken = FALSE]     \* Pending
            ELSE LET o == T.optOut[c]
                     T1 == [T EXCEPT !.opt[c] = "done"] IN
                 (CASE o.kind = "hit" -> Done(Emplace(T1, k, o.v, "task"), c)
                    [] o.kind \in {"miss", "thr"} -> SetRequired(T1, c, "none")
                    [] o.kind = "err" -> SetRequired(T1, c, "err"))
      [] t.st = "req" ->
            IF t.id \in T.closed THEN Done(T, c)
            ELSE LET d == t.cur IN
                 IF T.reqOut[d].kind = "none"
                 THEN [T EXCEPT !.req[d] = "polled", !.task[c].woken = FALSE]     \* Pending
                 ELSE LET ro == T.reqOut[d]
                          T2 == [T EXCEPT !.req[d] = "done"] IN
                      IF ro.kind = "ok" THEN Done(Emplace(T2, k, ro.v, "task"), c)
                      ELSE HandleError(T2, c)
      [] t.st = "notify" ->
            Done(Answer(T, t.ns, t.res, 0, "task"), c)

RECURSIVE RunToQuiescence(_, _)
RunToQuiescence(T, c) == IF Runnable(T, c) THEN RunToQuiescence(TStep(T, c), c) ELSE T

-------------------------------------------------------------------------------
(* Actions.  `out` names the last environment action (the driver script).    *)

Init == S = S0 /\ out = [a |-> "init"]

\* get_or_fetch_inner: lookup and in-flight registration in one critical section
Call(c, k, kind) ==
    /\ S.cal[c].st = "idle"
    /\ out' = [a |-> "call", c |-> c, k |-> k, kind |-> kind]
    /\ LET base == [S EXCEPT !.cal[c].key = k, !.cal[c].kind = kind]
           e == S.infl[k] IN
       IF S.mem[k] # 0
       THEN S' = [base EXCEPT !.cal[c].st = "val", !.cal[c].v = S.mem[k], !.cal[c].by = "hit"]
       ELSE IF e.id = 0
       THEN S' = [base EXCEPT
                    !.cal[c].st = "pending",
                    !.infl[k] = [id |-> S.nid, ws |-> <<c>>, f |-> 0],
                    !.nid = @ + 1,
                    !.req[c] = IF HasReq(kind) THEN "held" ELSE "none",
                    !.task[c] = [st |-> "init", key |-> k, id |-> S.nid, hasOpt |-> HasOpt(kind),
                                 fr |-> IF HasReq(kind) THEN c ELSE 0, cur |-> 0,
                                 res |-> "none", ns |-> <<>>, woken |-> TRUE]]
       ELSE S' = [base EXCEPT
                    !.cal[c].st = "pending",
                    !.infl[k].ws = Append(@, c),
                    !.infl[k].f = IF e.f = 0 /\ HasReq(kind) THEN c ELSE @,
                    !.req[c] = IF HasReq(kind) THEN (IF e.f = 0 THEN "held" ELSE "dropped") ELSE "none"]

\* one turn of the executor that owns task c: the task runs until it is pending or finished
TaskRun(c) ==
    /\ Runnable(S, c)
    /\ S' = RunToQuiescence(S, c)
    /\ out' = [a |-> "run", c |-> c]

\* a single step of the task (interleaving analysis only; not drivable from outside)
TaskStep(c) ==
    /\ Runnable(S, c)
    /\ S' = TStep(S, c)
    /\ out' = [a |-> "step", c |-> c]

\* the disk lookup of leader c resolves: hit (a version read from disk), miss, throttled, error
ResolveOpt(c, o) ==
    /\ S.optOut[c].kind = "none"
    /\ (S.opt[c] \in {"built", "polled"} \/ (S.task[c].st = "init" /\ S.task[c].hasOpt))
    /\ LET v == IF o = "hit" THEN S.nv + 1 ELSE 0 IN
       S' = [S EXCEPT !.optOut[c] = [kind |-> o, v |-> v],
                      !.nv = IF o = "hit" THEN @ + 1 ELSE @,
                      !.task[c].woken = IF S.opt[c] = "polled" /\ S.task[c].st = "opt" THEN TRUE ELSE @]
    /\ out' = [a |-> "ropt", c |-> c, o |-> o]

\* the origin closure of caller d resolves: ok (a fresh version) or error
ResolveReq(d, o) ==
    /\ S.req[d] \in {"held", "polled"} /\ S.reqOut[d].kind = "none"
    /\ LET v == IF o = "ok" THEN S.nv + 1 ELSE 0
           owners == {c \in Callers : S.task[c].st = "req" /\ S.task[c].cur = d} IN
       S' = [S EXCEPT !.reqOut[d] = [kind |-> o, v |-> v],
                      !.nv = IF o = "ok" THEN @ + 1 ELSE @,
                      !.task = [c \in Callers |->
                                   IF c \in owners /\ S.req[d] = "polled"
                                   THEN [S.task[c] EXCEPT !.woken = TRUE] ELSE S.task[c]]]
    /\ out' = [a |-> "rreq", c |-> d, o |-> o]

\* the caller drops its future before it is answered
DropCaller(c) ==
    /\ S.cal[c].st = "pending"
    /\ S' = [S EXCEPT !.cal[c].st = "dropped"]
    /\ out' = [a |-> "dropc", c |-> c]

\* the runtime of task c is shut down: the task is dropped wherever it stands (RawFetch::drop)
Cancel(c) ==
    /\ S.task[c].st \in {"init", "opt", "req"}
    /\ LET t == S.task[c]
           e == S.infl[t.key]
           T0 == [Release(S, c) EXCEPT !.task[c].st = "dropped", !.task[c].woken = FALSE] IN
       S' = IF e.id # 0 /\ e.id = t.id
            THEN Answer([T0 EXCEPT !.infl[t.key] = NoInfl, !.closed = @ \cup {e.id},
                                   !.req = IF e.f # 0 THEN [@ EXCEPT ![e.f] = "dropped"] ELSE @],
                        e.ws, "cancelled", 0, "task")
            ELSE T0
    /\ out' = [a |-> "cancel", c |-> c]

UserInsert(k) ==
    /\ S' = [Emplace(S, k, S.nv + 1, "insert") EXCEPT !.nv = @ + 1, !.uval[k] = S.nv + 1]
    /\ out' = [a |-> "ins", k |-> k]

UserRemove(k) ==
    /\ S' = [S EXCEPT !.mem[k] = 0, !.uval[k] = 0]
    /\ out' = [a |-> "rem", k |-> k]

-------------------------------------------------------------------------------
(* Properties                                                                *)

\* C11: once a user insert of k has completed and until the next user insert/remove of k,
\* the cache holds exactly that value
InsertWinsOverLateFetch == \A k \in Keys : S.uval[k] # 0 => S.mem[k] = S.uval[k]

\* C06: origin closures being executed (polled, unresolved) on behalf of a live (not closed) fetch
Running(k) == {d \in Callers : S.req[d] = "polled" /\ S.reqOut[d].kind = "none" /\
                 \E c \in Callers : S.task[c].st = "req" /\ S.task[c].cur = d /\ S.task[c].key = k
                                    /\ S.task[c].id \notin S.closed}
AtMostOneFetchPolled == \A k \in Keys : Cardinality(Running(k)) <= 1

\* every pending caller is registered in the in-flight entry of its key or held by a task about to notify it
NoOrphanWaiter ==
    \A c \in Callers : S.cal[c].st = "pending" =>
        \/ c \in Range(S.infl[S.cal[c].key].ws)
        \/ \E t \in Callers : S.task[t].st = "notify" /\ c \in Range(S.task[t].ns)

\* an in-flight entry always has a live task that will resolve it
InflightHasLiveTask ==
    \A k \in Keys : S.infl[k].id # 0 =>
        \E c \in Callers : S.task[c].id = S.infl[k].id /\ S.task[c].st \in {"init", "opt", "req"}

\* a caller answered with a value got the value the cache held at that moment for its key,
\* and lookup-only callers ("get") are answered "none" only if no origin closure was available
AnsweredConsistently ==
    \A c \in Callers : S.cal[c].st = "val" => S.cal[c].v # 0

TypeOK == /\ \A k \in Keys : S.infl[k].id = 0 => S.infl[k].ws = <<>>
          /\ \A c \in Callers : S.task[c].st = "req" => S.task[c].cur # 0

Inv == TypeOK /\ InsertWinsOverLateFetch /\ AtMostOneFetchPolled /\ NoOrphanWaiter
       /\ InflightHasLiveTask /\ AnsweredConsistently

\* progress (C06 "never hangs"): under fair scheduling of tasks and an environment that resolves
\* what it was asked, no caller stays pending
Pending(c) == S.cal[c].st = "pending"
===============================================================================
