---------------------------- MODULE Trace_Inflight ----------------------------
(***************************************************************************)
(* Trace validation for fetch coalescing (C06, C11).                       *)
(*                                                                         *)
(* The harness (`harness inflight-replay`) logs one line per environment   *)
(* action of Inflight.tla: {"op": {"a": ...}, "obs": Obs}.  The actions    *)
(* are deterministic, so the specification's state after the line is a     *)
(* function of the lines so far; what is judged is the logged observation: *)
(*   cal  - every caller's answer          (C06; C11 if the answer was due *)
(*          from a user insert)                                            *)
(*   mem  - the cached version of each key (C11 while a completed user     *)
(*          insert is the latest user operation on the key, else C06)      *)
(*   run  - origin closures being executed: at most one per key among      *)
(*          those the specification does not consider abandoned (C06)      *)
(* When exactly a future is polled (run / orun otherwise) is mechanism:    *)
(* a difference is recorded as drift and never as a violation.  After the  *)
(* first difference of any kind the rest of that run is not judged (the    *)
(* specification's state no longer describes the implementation); a run    *)
(* that ends in drift is counted as such in the evidence.                  *)
(***************************************************************************)
EXTENDS Inflight, Json, IOUtils, TLCExt

VARIABLES l, bad, dead

tvars == <<vars, l, bad, dead>>

Rec == ndJsonDeserialize(IOEnv.TRACE)

CallerSeq == [i \in 1 .. Cardinality(Callers) |-> i]

\* the specification's transition for a logged action; actions it does not enable leave S unchanged
\* (version numbering stays aligned with the driver, which numbers every "hit"/"ok"/"ins")
Apply(op) ==
    CASE op.a = "init" -> S' = S0
      [] op.a = "call" -> IF S.cal[op.c].st = "idle" THEN Call(op.c, op.k, op.kind) ELSE S' = S
      [] op.a = "run" -> IF Runnable(S, op.c) THEN TaskRun(op.c) ELSE S' = S
      [] op.a = "ropt" ->
            IF S.optOut[op.c].kind = "none" /\
               (S.opt[op.c] \in {"built", "polled"} \/ (S.task[op.c].st = "init" /\ S.task[op.c].hasOpt))
            THEN ResolveOpt(op.c, op.o)
            ELSE S' = [S EXCEPT !.nv = IF op.o = "hit" THEN @ + 1 ELSE @]
      [] op.a = "rreq" ->
            IF S.req[op.c] \in {"held", "polled"} /\ S.reqOut[op.c].kind = "none"
            THEN ResolveReq(op.c, op.o)
            ELSE S' = [S EXCEPT !.nv = IF op.o = "ok" THEN @ + 1 ELSE @]
      [] op.a = "dropc" -> IF S.cal[op.c].st = "pending" THEN DropCaller(op.c) ELSE S' = S
      [] op.a = "cancel" -> IF S.task[op.c].st \in {"init", "opt", "req"} THEN Cancel(op.c) ELSE S' = S
      [] op.a = "ins" -> UserInsert(op.k)
      [] op.a = "rem" -> UserRemove(op.k)
      [] op.a = "end" -> S' = S

KeySeq == LET RECURSIVE Sort(_)
              Sort(X) == IF X = {} THEN <<>> ELSE LET m == CHOOSE m \in X : \A y \in X : m <= y IN <<m>> \o Sort(X \ {m})
          IN Sort(Keys)

\* differences between the logged observation o and the specification's next state T.
\* Only what C06 / C11 state is tagged with a property; the rest is drift:
\*  - a caller answered differently from the specification (value, none, error, cancellation): C06,
\*    or C11 if the answer was due from a user insert that took over the caller;
\*  - a caller answered by one and still pending for the other is timing (drift), except after the
\*    final drain ("end"), where a pending caller is a hang (C06);
\*  - the cached version while a completed user insert is the latest user operation on the key: C11;
\*    otherwise only a cached version that no insert / disk hit / origin ever produced is C06
\*    ("a failed fetch caches nothing"); a late but genuine version is drift;
\*  - more than one origin closure running for a key among those not abandoned: C06.
Bad(op, o, T) ==
    LET answered(st) == st \notin {"idle", "pending"}
        calDiff == {c \in Callers : o.cal[c] # <<T.cal[c].st, T.cal[c].v>>}
        calBad == {c \in calDiff : answered(o.cal[c][1]) /\ answered(T.cal[c].st)}
        hung == IF op.a = "end" THEN {c \in Callers : o.cal[c][1] = "pending"} ELSE {}
        memDiff == {i \in 1 .. Len(KeySeq) : o.mem[i] # T.mem[KeySeq[i]]}
        live(d) == T.req[d] \in {"held", "polled"}
        tooMany == \E k \in Keys :
                      Cardinality({d \in Callers : o.run[d] = 1 /\ T.cal[d].key = k /\ live(d)}) > 1
        polls == \E c \in Callers :
                    \/ o.run[c] # (IF T.req[c] = "polled" /\ T.reqOut[c].kind = "none" THEN 1 ELSE 0)
                    \/ o.orun[c] # (IF T.opt[c] = "polled" /\ T.optOut[c].kind = "none" THEN 1 ELSE 0)
        foreign == (\E c \in Callers : o.cal[c][2] >= 1000000) \/ (\E i \in 1 .. Len(KeySeq) : o.mem[i] >= 1000000)
    IN {<<IF T.cal[c].by = "insert" THEN "C11" ELSE "C06", "caller_answer">> : c \in calBad}
       \cup (IF foreign THEN {<<"C17", "foreign_value">>} ELSE {})
       \cup {<<"C06", "caller_never_answered">> : c \in hung}
       \cup {<<"drift", "answer_timing">> : c \in calDiff \ calBad}
       \cup {IF T.uval[KeySeq[i]] # 0 THEN <<"C11", "insert_overwritten_by_late_fetch">>
             ELSE IF o.mem[i] > T.nv THEN <<"C06", "cached_unknown_value">>
             ELSE <<"drift", "cached_value">> : i \in memDiff}
       \cup (IF tooMany THEN {<<"C06", "concurrent_origin_fetches">>} ELSE {})
       \cup (IF polls THEN {<<"drift", "polls">>} ELSE {})

TraceInit == S = S0 /\ out = [a |-> "none"] /\ l = 1 /\ bad = {} /\ dead = FALSE

TraceNext ==
    /\ l <= Len(Rec)
    /\ Apply(Rec[l].op)
    /\ out' = Rec[l].op
    /\ LET b == Bad(Rec[l].op, Rec[l].obs, S')
           isInit == Rec[l].op.a = "init" IN
       \* once the run has drifted only the tags that rest on the logged operations alone are still judged (a
       \* caller still pending after the final drain - every slot resolved, every task run - hangs whatever
       \* happened before)
       /\ bad' = IF isInit THEN {} ELSE IF dead THEN {x \in b : x[2] \in {"insert_overwritten_by_late_fetch", "foreign_value", "caller_never_answered"}} ELSE b
       /\ dead' = IF isInit THEN FALSE ELSE (dead \/ b # {})
    /\ l' = l + 1

TraceSpec == TraceInit /\ [][TraceNext]_tvars

NoViolation(P) == \A b \in bad : b[1] # P
NoViolation_C06 == NoViolation("C06")
NoViolation_C11 == NoViolation("C11")
NoViolation_C17 == NoViolation("C17")
NoDrift == bad = {}
\* the specification's own invariants hold along every conforming execution
TraceInv == (~dead /\ bad = {}) => Inv

Consumed ==
    /\ PrintT(<<"CONSUMED", TLCGet("stats").diameter - 1, Len(Rec)>>)
    /\ TRUE
===============================================================================
