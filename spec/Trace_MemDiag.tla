---------------------------- MODULE Trace_MemDiag ----------------------------
(***************************************************************************)
(* Trace validation, implementation -> specification, per-property mode.   *)
(*                                                                         *)
(* Consumes the same NDJSON trace as Trace_MemCache but judges each listed *)
(* property separately, constraining only what that property states.      *)
(* Mechanism details (which record was the victim, in which order things   *)
(* were notified, the reference count) are TAKEN FROM THE LOG; the         *)
(* abstract state (which version of each key a lookup can find, who holds  *)
(* handles, what is pinned, shard capacities) is reconstructed from the    *)
(* logged calls and notifications, and re-synchronised from the logged     *)
(* post-state after every step, so one deviation is reported once and the  *)
(* rest of the trace is still checked.                                     *)
(*                                                                         *)
(* `bad` is the set of <<property, predicate>> pairs that are false on the *)
(* last step; each property's check uses the invariant  NoViolation(P).    *)
(* This is the abstraction "abs" of MemCache.tla (any unpinned resident    *)
(* record may be the victim) turned into a monitor.                        *)
(***************************************************************************)
EXTENDS Naturals, Sequences, FiniteSets, TLC, Json, IOUtils

CONSTANTS
    Keys, Hash, Shards,
    Pins        \* BOOLEAN: a lookup pins the record until its last handle is dropped (LRU)

VARIABLES
    attr,   \* Seq([key, w, ph])  attributes of version i (from the insert calls)
    idx,    \* [Keys -> Nat]      version a lookup can find, 0 = none
    refs,   \* Seq(Nat)           handles the driver holds on version i
    pin,    \* SUBSET Nat         looked up and not yet fully released (only if Pins)
    cap,    \* [shard -> Nat]
    nleft,  \* Seq(Nat)           leave notifications seen for version i
    l, bad

vars == <<attr, idx, refs, pin, cap, nleft, l, bad>>

Rec == ndJsonDeserialize(IOEnv.TRACE)

ShardSet == 0 .. (Shards - 1)
ShardOf(k) == Hash[k] % Shards
ShardCap(total, s) == (total \div Shards) + (IF s < total % Shards THEN 1 ELSE 0)
Monus(a, b) == IF a > b THEN a - b ELSE 0
Range(s) == {s[i] : i \in DOMAIN s}
Foreign(v) == v >= 1000000

RECURSIVE SumSet(_, _)
SumSet(at, S) == IF S = {} THEN 0 ELSE LET x == CHOOSE x \in S : TRUE IN at[x].w + SumSet(at, S \ {x})
RECURSIVE SumSeqW(_, _)
SumSeqW(at, s) == IF s = <<>> THEN 0 ELSE at[Head(s)].w + SumSeqW(at, Tail(s))
RECURSIVE SumNat(_)
SumNat(s) == IF s = <<>> THEN 0 ELSE Head(s) + SumNat(Tail(s))
Count(s, x) == Cardinality({i \in DOMAIN s : s[i] = x})
SameBag(s, t) == Len(s) = Len(t) /\ \A i \in DOMAIN s : Count(s, s[i]) = Count(t, s[i])

ResidentsOf(ix, s) == {ix[k] : k \in {k \in Keys : ix[k] # 0 /\ ShardOf(k) = s}}
UsageOf(at, ix, s) == SumSet(at, ResidentsOf(ix, s))

-------------------------------------------------------------------------------
Step(op, o) ==
    LET name == op.name
        isInsert == name = "insert"
        newv == Len(attr) + 1
        at1 == IF isInsert THEN Append(attr, [key |-> op.k, w |-> op.w, ph |-> op.ph]) ELSE attr
        known(v) == v \in 1 .. Len(at1)
        evs == o.ev
        evOK(i) == known(evs[i][2])
        \* leave notifications of admitted (non-phantom) versions, and of phantom ones
        admLeaves == SelectSeq(evs, LAMBDA e : known(e[2]) /\ ~at1[e[2]].ph)
        phLeaves  == SelectSeq(evs, LAMBDA e : known(e[2]) /\ at1[e[2]].ph)
        admSet == {admLeaves[i][2] : i \in DOMAIN admLeaves}
        victims == LET vs == SelectSeq(admLeaves, LAMBDA e : e[1] = "evict") IN
                   [i \in DOMAIN vs |-> vs[i][2]]
        evictAll == LET vs == SelectSeq(evs, LAMBDA e : e[1] = "evict") IN [i \in DOMAIN vs |-> vs[i][2]]
        resident(v) == known(v) /\ v <= Len(attr) /\ idx[attr[v].key] = v
        \* handles
        res == o.res
        hit == name \in {"get", "remove"} /\ res # 0 /\ ~Foreign(res) /\ known(res)
        rf0 == IF isInsert THEN Append(refs, 0) ELSE refs
        rf1 == CASE isInsert /\ op.hold -> [rf0 EXCEPT ![newv] = 1]
                 [] hit /\ op.hold -> [rf0 EXCEPT ![res] = @ + 1]
                 [] name = "clone" -> [rf0 EXCEPT ![op.r] = @ + 1]
                 [] name = "drop" -> [rf0 EXCEPT ![op.r] = @ - 1]
                 [] OTHER -> rf0
        held1 == {v \in 1 .. Len(rf1) : rf1[v] > 0}
        \* reconstructed index after the step
        ix0 == [k \in Keys |-> IF idx[k] \in admSet THEN 0 ELSE idx[k]]
        ix1 == IF isInsert
               THEN (IF op.ph THEN ix0 ELSE [ix0 EXCEPT ![op.k] = newv])
               ELSE ix0
        pr == Range(o.pr)
        ixKeys == {k \in Keys : ix1[k] # 0}
        \* re-synchronise with what the API shows
        ix2 == [k \in Keys |-> IF k \in pr THEN (IF ix1[k] # 0 THEN ix1[k] ELSE idx[k]) ELSE 0]
        \* pins
        lookedUp == name \in {"get", "touch"} /\ res # 0 /\
                    (IF name = "get" THEN hit ELSE idx[op.k] # 0)
        lv == IF name = "get" THEN res ELSE idx[op.k]
        pin0 == IF Pins /\ lookedUp /\ rf1[lv] > 0 THEN pin \cup {lv} ELSE pin
        pin1 == {v \in pin0 : rf1[v] > 0 /\ ix2[at1[v].key] = v}
        \* capacities
        cap1 == IF name \in {"init", "resize"} THEN [s \in ShardSet |-> ShardCap(op.cap, s)] ELSE cap
        nl0 == IF isInsert THEN Append(nleft, 0) ELSE nleft
        nl1 == [v \in 1 .. Len(nl0) |-> nl0[v] + Cardinality({i \in DOMAIN evs : evs[i][2] = v})]
        \* ---------------------------------------------------------------- predicates
        s == IF name \in {"insert", "get", "touch", "contains", "remove"} THEN ShardOf(op.k) ELSE 0
        u0 == UsageOf(attr, idx, s)
        target == Monus(cap[s], IF isInsert THEN op.w ELSE 0)
        realInsert == isInsert /\ ~op.ph
        vsIn(sh) == SelectSeq(victims, LAMBDA v : ShardOf(at1[v].key) = sh)
        Needed(vs, u, tg) == \A j \in 1 .. Len(vs) : u - SumSeqW(at1, SubSeq(vs, 1, j - 1)) > tg
        Stopped(vs, u, tg, sh) ==
            \/ u - SumSeqW(at1, vs) <= tg
            \/ (ResidentsOf(idx, sh) \ Range(vs)) \subseteq pin
        b05 ==
            (IF o.u # SumSet(at1, {ix2[k] : k \in {k \in Keys : ix2[k] # 0}}) THEN {<<"C05", "usage">>} ELSE {})
            \cup (IF o.n # Cardinality({k \in Keys : ix2[k] # 0}) THEN {<<"C05", "entries">>} ELSE {})
            \cup (IF realInsert /\ ~Needed(victims, u0, target) THEN {<<"C05", "over_eviction">>} ELSE {})
            \cup (IF realInsert /\ ~Stopped(victims, u0, target, s) THEN {<<"C05", "under_eviction">>} ELSE {})
            \cup (IF name = "resize" /\ \E sh \in ShardSet :
                        ~Needed(vsIn(sh), UsageOf(attr, idx, sh), cap1[sh]) THEN {<<"C05", "resize_over_eviction">>} ELSE {})
            \cup (IF name = "resize" /\ \E sh \in ShardSet :
                        ~Stopped(vsIn(sh), UsageOf(attr, idx, sh), cap1[sh], sh) THEN {<<"C05", "resize_bound">>} ELSE {})
            \cup (IF name \in {"clear", "drop_cache"} /\ (o.u # 0 \/ o.n # 0) THEN {<<"C05", "clear_zero">>} ELSE {})
        \* reasons allowed for the leave of an admitted version in this call
        reasonOK(e) ==
            LET v == e[2] IN
            CASE e[1] = "evict"   -> /\ name \in {"insert", "resize", "evict_all", "flush"}
                                     \* a disk-only (phantom) insert evicts nothing: the copy it displaces is replaced
                                     /\ (isInsert => (~op.ph /\ ShardOf(at1[v].key) = s))
              [] e[1] = "replace" -> isInsert /\ v <= Len(attr) /\ attr[v].key = op.k /\ idx[op.k] = v
              [] e[1] = "remove"  -> name = "remove" /\ idx[op.k] = v
              [] e[1] = "clear"   -> name \in {"clear", "drop_cache"}
              [] OTHER -> FALSE
        b13 ==
            (IF \E i \in DOMAIN admLeaves : ~resident(admLeaves[i][2]) \/ nl1[admLeaves[i][2]] # 1
                THEN {<<"C13", "leave_once">>} ELSE {})
            \cup (IF \E i \in DOMAIN admLeaves : resident(admLeaves[i][2]) /\ ~reasonOK(admLeaves[i])
                THEN {<<"C13", "reason">>} ELSE {})
            \cup (IF \E k \in ixKeys : k \notin pr THEN {<<"C13", "left_without_notification">>} ELSE {})
            \cup (IF realInsert /\ idx[op.k] # 0 /\ idx[op.k] \notin admSet
                THEN {<<"C13", "replaced_without_notification">>} ELSE {})
            \cup (IF \E k \in pr : ix1[k] = 0 THEN {<<"C13", "notified_while_findable">>} ELSE {})
            \cup (IF ~SameBag(o.pp, evictAll) THEN {<<"C13", "disk_handoff">>} ELSE {})
            \cup (IF \E i \in DOMAIN evs : ~evOK(i) THEN {<<"C13", "unknown_entry">>} ELSE {})
            \* a disk-only (phantom) entry: "remove" when inserted, "evict" (+ pipe) at its last drop
            \cup (IF \E i \in DOMAIN phLeaves :
                        LET v == phLeaves[i][2] IN
                        ~ \/ (phLeaves[i][1] = "remove" /\ isInsert /\ v = newv /\ nl1[v] <= 2)
                          \/ (phLeaves[i][1] = "evict" /\ rf1[v] = 0 /\ nl1[v] = 2)
                THEN {<<"C13", "phantom">>} ELSE {})
            \cup (IF \E v \in 1 .. Len(at1) : at1[v].ph /\ rf1[v] = 0 /\ nl1[v] # 2
                THEN {<<"C13", "phantom_handoff">>} ELSE {})
        b17 ==
            (IF (name \in {"get", "remove", "insert"} /\ Foreign(res)) \/ \E i \in DOMAIN evs : Foreign(evs[i][2])
                THEN {<<"C17", "foreign_value">>} ELSE {})
        b02 ==
            (IF name \in {"get", "remove"} /\ res # 0 /\ ~Foreign(res) /\ res # idx[op.k]
                THEN {<<"C02", "stale_value">>} ELSE {})
            \cup (IF name \in {"touch", "contains"} /\ res # 0 /\ idx[op.k] = 0
                THEN {<<"C02", "stale_presence">>} ELSE {})
            \cup (IF isInsert /\ res # newv THEN {<<"C02", "insert_result">>} ELSE {})
        b18 ==
            (IF \E i \in DOMAIN victims : victims[i] \in pin THEN {<<"C18", "pinned_victim">>} ELSE {})
            \cup (IF \E i \in DOMAIN o.hs : o.hs[i][3] = 2 THEN {<<"C18", "handle_changed">>} ELSE {})
            \cup (IF \E i \in DOMAIN o.hs : LET v == o.hs[i][1] IN
                        known(v) /\ o.hs[i][3] # 2 /\ ((o.hs[i][3] = 1) # (ix2[at1[v].key] # v))
                THEN {<<"C18", "is_outdated">>} ELSE {})
            \cup (IF realInsert /\ held1 = {} /\ pin = {} /\
                     UsageOf(at1, ix2, s) > cap[s] /\ op.w <= cap[s]
                THEN {<<"C18", "leak_over_capacity">>} ELSE {})
    IN
    /\ attr' = IF name = "init" THEN <<>> ELSE at1
    /\ idx' = IF name = "init" THEN [k \in Keys |-> 0] ELSE ix2
    /\ refs' = IF name = "init" THEN <<>> ELSE rf1
    /\ pin' = IF name = "init" THEN {} ELSE pin1
    /\ cap' = cap1
    /\ nleft' = IF name = "init" THEN <<>> ELSE nl1
    /\ bad' = IF name = "init" THEN {} ELSE b05 \cup b13 \cup b17 \cup b02 \cup b18

Init ==
    /\ attr = <<>> /\ refs = <<>> /\ nleft = <<>> /\ pin = {}
    /\ idx = [k \in Keys |-> 0]
    /\ cap = [s \in ShardSet |-> 0]
    /\ l = 1 /\ bad = {}

Next ==
    /\ l <= Len(Rec)
    /\ Step(Rec[l].op, Rec[l].obs)
    /\ l' = l + 1

Spec == Init /\ [][Next]_vars

NoViolation(P) == \A b \in bad : b[1] # P
NoViolation_C02 == NoViolation("C02")
NoViolation_C05 == NoViolation("C05")
NoViolation_C13 == NoViolation("C13")
NoViolation_C17 == NoViolation("C17")
NoViolation_C18 == NoViolation("C18")

Consumed ==
    /\ PrintT(<<"CONSUMED", TLCGet("stats").diameter - 1, Len(Rec)>>)
    /\ TRUE
===============================================================================
