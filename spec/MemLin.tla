-------------------------------- MODULE MemLin --------------------------------
(***************************************************************************)
(* C02: per key, the in-memory cache behaves like an atomic register whose *)
(* reads may additionally miss.  A concurrent history is a sequence of     *)
(* invocation and response events (stamped by one global counter in the    *)
(* harness, so their order is the real-time order).                        *)
(*                                                                         *)
(* Statement implemented: a lookup returns nothing, or the value of an     *)
(* insert that (i) was invoked before the lookup responded and (ii) is not *)
(* superseded by an insert or remove of the same key that completed before *)
(* the lookup started - where "w2 supersedes w" means w responded before   *)
(* w2 was invoked (real-time order; overlapping writes may linearize       *)
(* either way, so neither supersedes the other).                           *)
(*                                                                         *)
(* The monitor below decides this in one pass.  The module also contains a *)
(* small generator of concurrent histories of an atomic register with      *)
(* misses (operations take effect at one instant between invocation and    *)
(* response), which TLC uses to show that the monitor accepts every        *)
(* linearizable history (no false alarm) and rejects stale reads.          *)
(***************************************************************************)
EXTENDS Naturals, Sequences, FiniteSets, TLC

CONSTANTS Keys

VARIABLES
    done,       \* [Keys -> SUBSET Nat]  versions whose insert has responded
    begun,      \* [Keys -> SUBSET Nat]  versions whose insert has been invoked
    dead,       \* [Keys -> SUBSET Nat]  versions superseded by a completed later write
    openW,      \* set of [id, k, snap]: writes (insert / remove) invoked and not yet responded; snap = done[k] at invocation
    openR,      \* set of [id, k, deadAtInv]: lookups invoked and not yet responded
    bad

mvars == <<done, begun, dead, openW, openR, bad>>

MInit ==
    /\ done = [k \in Keys |-> {}] /\ begun = [k \in Keys |-> {}] /\ dead = [k \in Keys |-> {}]
    /\ openW = {} /\ openR = {} /\ bad = {}

\* insert of version v (v = 0: remove) invoked by operation id
InvWrite(id, k, v) ==
    /\ begun' = IF v # 0 THEN [begun EXCEPT ![k] = @ \cup {v}] ELSE begun
    /\ openW' = openW \cup {[id |-> id, k |-> k, v |-> v, snap |-> done[k]]}
    /\ UNCHANGED <<done, dead, openR>> /\ bad' = {}

RespWrite(id) ==
    /\ \E w \in openW : w.id = id
    /\ LET w == CHOOSE w \in openW : w.id = id IN
       /\ done' = IF w.v # 0 THEN [done EXCEPT ![w.k] = @ \cup {w.v}] ELSE done
       \* everything that had completed before this write was invoked is now superseded
       /\ dead' = [dead EXCEPT ![w.k] = @ \cup w.snap]
       /\ openW' = openW \ {w}
    /\ UNCHANGED <<begun, openR>> /\ bad' = {}

InvRead(id, k) ==
    /\ openR' = openR \cup {[id |-> id, k |-> k, deadAtInv |-> dead[k]]}
    /\ UNCHANGED <<done, begun, dead, openW>> /\ bad' = {}

\* the lookup answers version v (0 = miss); intact = the handle still shows the key/value/weight it was created with
RespRead(id, v, foreign) ==
    /\ \E r \in openR : r.id = id
    /\ LET r == CHOOSE r \in openR : r.id = id IN
       /\ bad' = (IF foreign THEN {<<"C17", "foreign_value">>} ELSE {})
                 \cup (IF v # 0 /\ ~foreign /\ v \notin begun[r.k] THEN {<<"C02", "value_from_nowhere">>} ELSE {})
                 \cup (IF v # 0 /\ v \in r.deadAtInv THEN {<<"C02", "stale_value">>} ELSE {})
       /\ openR' = openR \ {r}
    /\ UNCHANGED <<done, begun, dead, openW>>

Linearizable == \A b \in bad : b[1] # "C02"
===============================================================================
