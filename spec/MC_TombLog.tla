---- MODULE MC_TombLog ----
EXTENDS TombLog
CONSTANT MaxHist
Bound == Len(hist) <= MaxHist
====
