--------------------------- MODULE Trace_DiskImage ---------------------------
(***************************************************************************)
(* Trace validation at the level of the device image (C04, C07).           *)
(*                                                                         *)
(* `harness disk-run` drives a real store through the recording io engine  *)
(* and logs, in device-completion order:                                   *)
(*   {"a":"init"}                                                          *)
(*   {"a":"sub","k":k,"v":v}        insert of version v submitted          *)
(*   {"a":"del","k":k}              remove submitted                       *)
(*   {"a":"w","b":b,"o":o,"ps":[..]}  a write to block b completed: pages  *)
(*                                  as classified by the harness's own     *)
(*                                  parser of the on-disk format           *)
(*   {"a":"tw","p":p,"ts":[..]}     a tombstone-log page write completed   *)
(*   {"a":"ack"}                    wait() returned: everything submitted  *)
(*                                  so far is acknowledged as flushed      *)
(*   {"a":"q","res":[..]}           quiescent point: Store::load of every  *)
(*                                  key on the live engine                 *)
(*   {"a":"probe","res":[..]}       the image as of now was copied, opened *)
(*                                  by a fresh engine, every key looked up *)
(*   {"a":"tprobe","b":b,"o":o,"ps":[..],"res":[..]}  the same with the    *)
(*                                  first pages of the next block write    *)
(*                                  applied (torn write)                   *)
(* The specification keeps the model image and the tombstone pages, and    *)
(* computes what recovery must rebuild (DiskImage!Rebuild / Lookup).       *)
(***************************************************************************)
EXTENDS DiskImage, Integers, Json, IOUtils, TLCExt

CONSTANTS TombLogOn,
          FifoOrder,      \* BOOLEAN: one flusher, default pickers, no deletes, no restart: blocks are reclaimed oldest-filled first (C09)
          ReinsertKeys    \* keys the reinsertion filter admits (C09)

VARIABLES img, tpages, stored, last, acked, written, fillOrder, laterDel, ondev, marked, marking, l, bad

tvars == <<img, tpages, stored, last, acked, written, fillOrder, laterDel, ondev, marked, marking, l, bad>>

Rec == ndJsonDeserialize(IOEnv.TRACE)

KeySeq == LET RECURSIVE Sort(_)
              Sort(X) == IF X = {} THEN <<>> ELSE LET m == CHOOSE m \in X : \A y \in X : m <= y IN <<m>> \o Sort(X \ {m})
          IN Sort(Keys)

NoOp == [kind |-> "none", n |-> 0]
Img0 == [b \in Blocks |-> [p \in 0 .. BP - 1 |-> Zero]]
Tombs(tp) == UNION {{tp[p][i] : i \in DOMAIN tp[p]} : p \in DOMAIN tp}

\* classification of a JSON page descriptor (records with exactly the fields DiskImage uses)
Page(d) == CASE d.t = "idx" -> [t |-> "idx", es |-> d.es]
             [] d.t = "ent" -> [t |-> "ent", k |-> d.k, v |-> d.v, h |-> d.h, seq |-> d.seq, n |-> d.n, i |-> d.i]
             [] d.t = "zero" -> Zero
             [] OTHER -> Raw
Pages(ps) == [i \in DOMAIN ps |-> Page(ps[i])]

\* pages the scan of the current image reaches
Live(im, b, p) ==
    LET sc == Scan(im, b) IN
    \E i \in DOMAIN sc : p >= sc[i].o /\ p < sc[i].o + sc[i].len

Collides(k) == \E k2 \in Keys \ {k} : Hash[k2] = Hash[k]

ProbeBad(im, tp, res) ==
    LET ix == Rebuild(im, IF TombLogOn THEN Tombs(tp) ELSE {}) IN
    UNION {
      LET k == KeySeq[i]
          r == res[i]
          exp == Lookup(im, ix, k) IN
      (IF r # 0 /\ (r >= 1000000 \/ r \notin stored[k]) THEN {<<"C04", "value_never_stored_for_key", k>>} ELSE {})
      \* an acknowledged write is never lost: the key reads as the acknowledged version or as the outcome of an
      \* operation submitted after the acknowledgement (a newer version; a miss only if a delete was submitted
      \* since - it may or may not have reached the device); keys sharing their hash with another key are C17's
      \* subject (the disk tier holds one of them)
      \cup (IF ~Collides(k) /\ acked[k].kind = "ins" /\ r >= 0 /\ r < acked[k].n /\ ~(r = 0 /\ laterDel[k])
            THEN {<<"C04", "acked_write_lost_or_older", k>>} ELSE {})
      \cup (IF ~Collides(k) /\ TombLogOn /\ acked[k].kind = "del" /\ r > 0 /\ r < acked[k].n
            THEN {<<"C04", "acked_delete_resurrected", k>>} ELSE {})
      \cup (IF r # exp THEN {<<"drift", "recovery_result", k>>} ELSE {})
      : i \in 1 .. Len(KeySeq) }

TraceInit ==
    /\ img = Img0 /\ tpages = <<>> /\ stored = [k \in Keys |-> {}]
    /\ last = [k \in Keys |-> NoOp] /\ acked = [k \in Keys |-> NoOp] /\ written = {}
    /\ fillOrder = <<>> /\ laterDel = [k \in Keys |-> FALSE] /\ ondev = {} /\ marked = {} /\ marking = FALSE
    /\ l = 1 /\ bad = {}

TraceNext ==
    /\ l <= Len(Rec)
    /\ LET e == Rec[l] IN
       CASE e.a = "init" ->
              /\ img' = Img0 /\ tpages' = <<>> /\ stored' = [k \in Keys |-> {}]
              /\ last' = [k \in Keys |-> NoOp] /\ acked' = [k \in Keys |-> NoOp] /\ written' = {} /\ bad' = {}
              /\ fillOrder' = <<>>
              /\ laterDel' = [k \in Keys |-> FALSE]
              /\ ondev' = {}
              /\ marked' = {} /\ marking' = FALSE
         [] e.a = "mark" ->
              \* every block marked for imminent reclaim (probation), through the guarded hook
              /\ marked' = Blocks /\ marking' = TRUE /\ bad' = {}
              /\ UNCHANGED <<img, tpages, stored, last, acked, written, fillOrder, laterDel, ondev>>
         [] e.a = "sub" ->
              /\ stored' = [stored EXCEPT ![e.k] = @ \cup {e.v}]
              /\ last' = [last EXCEPT ![e.k] = [kind |-> "ins", n |-> e.v]]
              /\ UNCHANGED <<img, tpages, acked, written>> /\ bad' = {}
              /\ UNCHANGED fillOrder
              /\ UNCHANGED laterDel
              /\ UNCHANGED ondev
              /\ UNCHANGED <<marked, marking>>
         [] e.a = "del" ->
              \* n = the next version number: anything newer than the delete has a version >= n
              /\ last' = [last EXCEPT ![e.k] = [kind |-> "del", n |-> e.n]]
              /\ UNCHANGED <<img, tpages, stored, acked, written>> /\ bad' = {}
              /\ UNCHANGED fillOrder
              /\ laterDel' = [laterDel EXCEPT ![e.k] = TRUE]
              /\ UNCHANGED ondev
              /\ UNCHANGED <<marked, marking>>
         [] e.a = "ack" ->
              /\ acked' = last
              /\ UNCHANGED <<img, tpages, stored, last, written>> /\ bad' = {}
              /\ UNCHANGED fillOrder
              /\ laterDel' = [k \in Keys |-> FALSE]
              /\ UNCHANGED ondev
              /\ UNCHANGED <<marked, marking>>
         [] e.a = "w" ->
              LET ps == Pages(e.ps)
                  isIndex == ps[1].t = "idx" IN      \* (a blob index of several pages: the first page carries the entries)
              /\ img' = WritePages(img, e.b, e.o, ps)
              /\ written' = written \cup
                    (IF isIndex THEN {[h |-> ps[1].es[i].h, seq |-> ps[1].es[i].seq, b |-> e.b,
                                       o |-> e.o + ps[1].es[i].off, len |-> ps[1].es[i].len] : i \in DOMAIN ps[1].es}
                     ELSE {})
              /\ bad' = (IF e.o + Len(ps) > BP THEN {<<"C07", "write_crosses_block_end">>} ELSE {})
                        \cup (IF \E j \in 1 .. Len(ps) : e.o + j - 1 < BP /\ Live(img, e.b, e.o + j - 1)
                              THEN {<<"C07", "write_over_live_entry">>, <<"C09", "block_rewritten_while_backing_entries">>} ELSE {})
              /\ UNCHANGED <<tpages, stored, last, acked>>
              /\ fillOrder' = IF Pages(e.ps)[1].t # "idx" /\ ~\E i \in DOMAIN fillOrder : fillOrder[i] = e.b
                              THEN Append(fillOrder, e.b) ELSE fillOrder
              /\ UNCHANGED laterDel
              /\ ondev' = ondev \cup {Pages(e.ps)[j].v : j \in {j \in DOMAIN Pages(e.ps) : Pages(e.ps)[j].t = "ent"}}
              /\ UNCHANGED <<marked, marking>>
         [] e.a = "tw" ->
              /\ tpages' = [p \in (DOMAIN tpages) \cup {e.p} |-> IF p = e.p THEN e.ts ELSE tpages[p]]
              /\ UNCHANGED <<img, stored, last, acked, written>> /\ bad' = {}
              /\ UNCHANGED fillOrder
              /\ UNCHANGED laterDel
              /\ UNCHANGED ondev
              /\ UNCHANGED <<marked, marking>>
         [] e.a = "clean" ->
              \* a block was reclaimed: its first page zeroed (the ack rule then no longer applies to its keys)
              /\ img' = WritePages(img, e.b, 0, <<Zero>>)
              /\ written' = {x \in written : x.b # e.b}
              /\ UNCHANGED <<tpages, stored, last, acked>>
              /\ bad' = IF FifoOrder /\ fillOrder # <<>> /\ Head(fillOrder) # e.b
                        THEN {<<"C09", "not_oldest_filled_block_reclaimed", e.b>>} ELSE {}
              /\ fillOrder' = SelectSeq(fillOrder, LAMBDA x : x # e.b)
              /\ UNCHANGED laterDel
              /\ UNCHANGED ondev
              /\ marked' = marked \ {e.b} /\ UNCHANGED marking     \* the reclaimer resets the block's probation mark
         [] e.a = "q" ->
              LET ix == Rebuild(img, IF TombLogOn THEN Tombs(tpages) ELSE {})
                  sc == ConcatScans(img, BlockSeq(Blocks))
                  scanned == {sc[i] : i \in DOMAIN sc} IN
              /\ bad' = (IF scanned # written THEN {<<"C07", "scan_differs_from_written">>} ELSE {})
                        \* every entry an intact blob index lists is backed by its intact data at the recorded position
                        \cup (IF \E x \in scanned : LET en == EntryAt(img, x) IN ~en.ok \/ en.h # x.h \/ en.seq # x.seq
                              THEN {<<"C07", "indexed_entry_not_backed_by_its_data">>} ELSE {})
                        \cup UNION {
                            LET k == KeySeq[i] IN
                            (IF e.res[i] # 0 /\ e.res[i] \notin stored[k] THEN {<<"C07", "load_returns_unstored_value", k>>} ELSE {})
                            \cup (IF e.claimed[i] = 1 /\ e.res[i] = 0 /\ Lookup(img, ix, k) # 0
                                  THEN {<<"C07", "claimed_key_not_loadable", k>>} ELSE {})
                            \* C09: whatever was reclaimed meanwhile, a key whose latest insert was acknowledged reads as
                            \* that version or as a miss; a key the reinsertion filter admits survives
                            \* (a version that never reached the device - shed by a full flush buffer or write queue, the
                            \* documented overload limits - is not one the disk tier can be asked for)
                            \cup (IF e.res[i] # 0 /\ acked[k] = last[k] /\ acked[k].kind = "ins" /\ ~Collides(k)
                                     /\ acked[k].n \in ondev
                                     /\ e.res[i] \in stored[k] /\ e.res[i] # acked[k].n
                                  THEN {<<"C09", "older_version_after_reclaim", k>>} ELSE {})
                            \cup (IF e.res[i] # 0 /\ e.res[i] \notin stored[k] THEN {<<"C09", "damaged_entry_surfaced", k>>} ELSE {})
                            \* C12: a disk hit comes back Old (to be written again on eviction) exactly if its block is
                            \* marked for imminent reclaim; a reclaimed and refilled block is not
                            \cup (IF marking /\ e.res[i] # 0 /\ e.ages[i] \in {1, 2} /\ Lookup(img, ix, k) = e.res[i]
                                     /\ (e.ages[i] = 2) # (ix[Hash[k]].b \in marked)
                                  THEN {<<"C12", "age_of_disk_hit_differs_from_block_probation", k>>} ELSE {})
                            \cup (IF k \in ReinsertKeys /\ acked[k] = last[k] /\ acked[k].kind = "ins" /\ acked[k].n \in ondev /\ e.res[i] = 0
                                  THEN {<<"C09", "reinserted_entry_lost", k>>} ELSE {})
                            \* right after a restart the live index is exactly what the scanner and recovery rebuilt
                            \cup (IF e.res[i] # Lookup(img, ix, k)
                                  THEN {<<IF e.reopened THEN "C07" ELSE "drift",
                                          IF e.reopened THEN "recovered_index_differs_from_written_image" ELSE "live_lookup", k>>}
                                  ELSE {})
                            : i \in 1 .. Len(KeySeq) }
              /\ UNCHANGED <<img, tpages, stored, last, acked, written>>
              /\ UNCHANGED fillOrder
              /\ UNCHANGED laterDel
              /\ UNCHANGED ondev
              /\ UNCHANGED <<marked, marking>>
         [] e.a = "probe" ->
              /\ bad' = ProbeBad(img, tpages, e.res)
              /\ UNCHANGED <<img, tpages, stored, last, acked, written>>
              /\ UNCHANGED fillOrder
              /\ UNCHANGED laterDel
              /\ UNCHANGED ondev
              /\ UNCHANGED <<marked, marking>>
         [] e.a = "fprobe" ->
              \* C03: a fault was applied to a copy of the image (the harness re-classified the pages of every
              \* block it touched, and the tombstone page if that was hit); the copy was opened and every key
              \* looked up: a value never stored for the key, or a failed / panicking open, is the violation
              LET RECURSIVE ApplyBlocks(_, _)
                  ApplyBlocks(im, bs) == IF bs = <<>> THEN im
                                         ELSE ApplyBlocks(WritePages(im, Head(bs).b, 0, Pages(Head(bs).ps)), Tail(bs))
                  im == ApplyBlocks(img, e.blocks)
                  tp == IF e.tp >= 0 THEN [p \in (DOMAIN tpages) \cup {e.tp} |-> IF p = e.tp THEN e.ts ELSE tpages[p]]
                        ELSE tpages
                  ix == Rebuild(im, IF TombLogOn THEN Tombs(tp) ELSE {}) IN
              /\ bad' = UNION {
                    LET k == KeySeq[i]
                        r == e.res[i] IN
                    (IF r = -3 \/ r = -4 THEN {<<"C03", "open_failed_or_panicked", k>>} ELSE {})
                    \cup (IF r > 0 /\ (r >= 1000000 \/ r \notin stored[k]) THEN {<<"C03", "value_never_stored_for_key", k>>} ELSE {})
                    \cup (IF r >= 0 /\ r # Lookup(im, ix, k) THEN {<<"drift", "lookup_under_fault", k>>} ELSE {})
                    : i \in 1 .. Len(KeySeq) }
              /\ UNCHANGED <<img, tpages, stored, last, acked, written>>
              /\ UNCHANGED fillOrder
              /\ UNCHANGED laterDel
              /\ UNCHANGED ondev
              /\ UNCHANGED <<marked, marking>>
         [] e.a = "tprobe" ->
              \* the first pages of the next block write reached the device before the crash
              /\ bad' = ProbeBad(WritePages(img, e.b, e.o, Pages(e.ps)), tpages, e.res)
              /\ UNCHANGED <<img, tpages, stored, last, acked, written>>
              /\ UNCHANGED fillOrder
              /\ UNCHANGED laterDel
              /\ UNCHANGED ondev
              /\ UNCHANGED <<marked, marking>>
    /\ l' = l + 1

TraceSpec == TraceInit /\ [][TraceNext]_tvars

NoViolation(P) == \A b \in bad : b[1] # P
NoViolation_C03 == NoViolation("C03")
NoViolation_C04 == NoViolation("C04")
NoViolation_C07 == NoViolation("C07")
NoViolation_C09 == NoViolation("C09")
NoViolation_C12 == NoViolation("C12")
NoDrift == \A b \in bad : b[1] # "drift"

Consumed ==
    /\ PrintT(<<"CONSUMED", TLCGet("stats").diameter - 1, Len(Rec)>>)
    /\ TRUE
==============================================================================
