------------------------------- MODULE TombLog -------------------------------
(***************************************************************************)
(* The tombstone log of the block engine (engine/block/tombstone.rs) and   *)
(* its use by recovery - property C10.                                     *)
(*                                                                         *)
(* The log is a ring of Pages pages of SlotsPerPage 16-byte slots          *)
(* (hash, sequence).  A volatile page buffer holds the page of the tail    *)
(* slot; append writes tombstones at the tail (loading the next page when  *)
(* the tail crosses a page boundary) and flushes the buffer page.  Open    *)
(* scans every page, places the tail right after the newest tombstone      *)
(* (highest sequence) and loads that page.                                 *)
(*                                                                         *)
(* Keys are abstracted to hashes 1..NKeys, each of which has an older      *)
(* flushed copy on disk, so a lost tombstone shows as a resurrection.      *)
(***************************************************************************)
EXTENDS Naturals, Sequences, FiniteSets, TLC

CONSTANTS SlotsPerPage, Pages, NKeys, MaxBatch

VARIABLES
    ring,       \* [0 .. Cap-1 -> <<hash, seq>>]   durable slots, <<0,0>> = empty
    slot,       \* Nat            volatile: next slot to write (monotone; position = slot % Cap)
    bufPage,    \* volatile: page held by the page buffer
    buf,        \* [0 .. SlotsPerPage-1 -> <<hash,seq>>] content of the page buffer
    seq,        \* next sequence number
    deleted,    \* [1..NKeys -> Nat]  sequence of the latest flushed delete of the key, 0 = not deleted
    hist,       \* Seq(seq)  sequences of all flushed tombstones, in order
    open        \* BOOLEAN

vars == <<ring, slot, bufPage, buf, seq, deleted, hist, open>>

Cap == SlotsPerPage * Pages
Empty == <<0, 0>>
PageOf(s) == (s \div SlotsPerPage) % Pages
OffOf(s) == s % SlotsPerPage
PageContent(r, p) == [i \in 0 .. SlotsPerPage - 1 |-> r[p * SlotsPerPage + i]]
WritePage(r, p, c) == [x \in 0 .. Cap - 1 |-> IF x \div SlotsPerPage = p THEN c[x % SlotsPerPage] ELSE r[x]]

Init ==
    /\ ring = [x \in 0 .. Cap - 1 |-> Empty]
    /\ slot = 1                     \* an empty log opens with the tail at slot 1
    /\ bufPage = 0 /\ buf = [i \in 0 .. SlotsPerPage - 1 |-> Empty]
    /\ seq = 1
    /\ deleted = [k \in 1 .. NKeys |-> 0]
    /\ hist = <<>>
    /\ open = TRUE

RECURSIVE AppendAll(_, _, _, _, _)
\* returns [ring, slot, bufPage, buf] after appending the tombstones ts one by one
AppendAll(r, s, bp, b, ts) ==
    IF ts = <<>> THEN [ring |-> r, slot |-> s, bufPage |-> bp, buf |-> b]
    ELSE LET p == PageOf(s)
             \* crossing into another page: flush the buffer, load the new page
             r1 == IF p # bp THEN WritePage(r, bp, b) ELSE r
             b1 == IF p # bp THEN PageContent(r1, p) ELSE b
             b2 == [b1 EXCEPT ![OffOf(s)] = Head(ts)] IN
         AppendAll(r1, s + 1, p, b2, Tail(ts))

\* a batch of deletes is flushed: tombstones appended in sequence order, buffer page flushed
AppendBatch(ks) ==
    /\ open
    /\ LET ts == [i \in 1 .. Len(ks) |-> <<ks[i], seq + i - 1>>]
           a == AppendAll(ring, slot, bufPage, buf, ts) IN
       /\ ring' = WritePage(a.ring, a.bufPage, a.buf)
       /\ slot' = a.slot /\ bufPage' = a.bufPage /\ buf' = a.buf
       /\ seq' = seq + Len(ks)
       /\ deleted' = [k \in 1 .. NKeys |->
                        LET is == {i \in 1 .. Len(ks) : ks[i] = k} IN
                        IF is = {} THEN deleted[k]
                        ELSE seq + (CHOOSE i \in is : \A j \in is : j <= i) - 1]
       /\ hist' = hist \o [i \in 1 .. Len(ks) |-> seq + i - 1]
    /\ UNCHANGED open

\* process exit (graceful or crash: every append is flushed before it is acknowledged)
Close == open /\ open' = FALSE /\ UNCHANGED <<ring, slot, bufPage, buf, seq, deleted, hist>>

PosOfMax(r) == CHOOSE x \in 0 .. Cap - 1 : \A y \in 0 .. Cap - 1 : r[y][2] <= r[x][2]
MaxSeq(r) == r[PosOfMax(r)][2]

\* TombstoneLog::open: tail right after the newest tombstone
Open ==
    /\ ~open
    /\ LET tail == IF MaxSeq(ring) = 0 THEN 1 ELSE PosOfMax(ring) + 1 IN
       /\ slot' = tail
       /\ bufPage' = PageOf(tail)
       /\ buf' = PageContent(ring, PageOf(tail))
    /\ open' = TRUE
    /\ seq' = IF MaxSeq(ring) >= seq THEN MaxSeq(ring) + 1 ELSE seq
    /\ UNCHANGED <<ring, deleted, hist>>

\* close (graceful or not) immediately followed by open
Reopen ==
    /\ open
    /\ LET tail == IF MaxSeq(ring) = 0 THEN 1 ELSE PosOfMax(ring) + 1 IN
       /\ slot' = tail
       /\ bufPage' = PageOf(tail)
       /\ buf' = PageContent(ring, PageOf(tail))
    /\ seq' = IF MaxSeq(ring) >= seq THEN MaxSeq(ring) + 1 ELSE seq
    /\ UNCHANGED <<ring, deleted, hist, open>>

Next ==
    \/ \E n \in 1 .. MaxBatch : \E ks \in [1 .. n -> 1 .. NKeys] : AppendBatch(ks)
    \/ Close \/ Open

Spec == Init /\ [][Next]_vars

-------------------------------------------------------------------------------
InRing(s) == \E x \in 0 .. Cap - 1 : ring[x][2] = s

\* the most recent Cap-1 flushed tombstones are all in the durable log
RecentRetained ==
    \A i \in 1 .. Len(hist) : i > Len(hist) - (Cap - 1) => InRing(hist[i])

\* recovery lets the tombstone suppress the older copy: a key whose latest delete is among the most
\* recent Cap-1 flushed tombstones reads as absent after any reopen
FlushedDeleteAbsent ==
    \A k \in 1 .. NKeys :
        (deleted[k] # 0 /\ \E i \in 1 .. Len(hist) : hist[i] = deleted[k] /\ i > Len(hist) - (Cap - 1))
            => InRing(deleted[k])

\* after open the tail is right after the newest tombstone
TailAfterNewest ==
    (open /\ MaxSeq(ring) # 0) => (slot % Cap) = ((PosOfMax(ring) + 1) % Cap)

BufferCoherent == open => \A i \in 0 .. SlotsPerPage - 1 :
                     buf[i] = ring[bufPage * SlotsPerPage + i]

Inv == RecentRetained /\ FlushedDeleteAbsent /\ TailAfterNewest /\ BufferCoherent
===============================================================================
