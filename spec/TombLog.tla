------------------------------- MODULE TombLog -------------------------------
(***************************************************************************)
(* The tombstone log of the block engine (engine/block/tombstone.rs) and   *)
(* its use by recovery - property C10.                                     *)
(*                                                                         *)
(* The log is a ring of Pages pages of SlotsPerPage 16-byte slots          *)
(* (hash, sequence).  A volatile page buffer holds the page of the tail    *)
(* slot; append writes tombstones at the tail (loading the next page when  *)
(* the tail crosses a page boundary) and flushes the buffer page.  Open    *)
(* scans every page, places the tail right after the newest tombstone      *)
(* (highest sequence) and loads that page.                                 *)
(*                                                                         *)
(* Keys are abstracted to hashes 1..NKeys, each of which has an older      *)
(* flushed copy on disk, so a lost tombstone shows as a resurrection.      *)
(***************************************************************************)
EXTENDS Naturals, Sequences, FiniteSets, TLC

CONSTANTS SlotsPerPage, Pages, NKeys, MaxBatch,
          Flushers,     \* 1 or 2: with two flushers the tombstones of one batch are appended flusher by flusher
                        \* (hash mod 2), in either order - the log is then not in sequence order
          TailRule      \* "max": open puts the tail right after the newest tombstone (what the code does; with two
                        \* flushers this loses tombstones: finding F15, open); "drop": at the largest drop of the
                        \* sequences round the ring (a repair that was tried and withdrawn: TLC shows it wrong for a
                        \* nearly empty log with small sequences, and large interleaved batches defeat it after a wrap)

VARIABLES
    ring,       \* [0 .. Cap-1 -> <<hash, seq>>]   durable slots, <<0,0>> = empty
    slot,       \* Nat            volatile: next slot to write (monotone; position = slot % Cap)
    bufPage,    \* volatile: page held by the page buffer
    buf,        \* [0 .. SlotsPerPage-1 -> <<hash,seq>>] content of the page buffer
    seq,        \* next sequence number
    deleted,    \* [1..NKeys -> Nat]  sequence of the latest flushed delete of the key, 0 = not deleted
    hist,       \* Seq(seq)  sequences of all flushed tombstones, in sequence order
    lastpos,    \* ring position of the tombstone appended last (history variable; Cap = nothing appended yet)
    open        \* BOOLEAN

vars == <<ring, slot, bufPage, buf, seq, deleted, hist, lastpos, open>>

Cap == SlotsPerPage * Pages
Empty == <<0, 0>>
PageOf(s) == (s \div SlotsPerPage) % Pages
OffOf(s) == s % SlotsPerPage
PageContent(r, p) == [i \in 0 .. SlotsPerPage - 1 |-> r[p * SlotsPerPage + i]]
WritePage(r, p, c) == [x \in 0 .. Cap - 1 |-> IF x \div SlotsPerPage = p THEN c[x % SlotsPerPage] ELSE r[x]]

Init ==
    /\ ring = [x \in 0 .. Cap - 1 |-> Empty]
    /\ slot = 1                     \* an empty log opens with the tail at slot 1
    /\ bufPage = 0 /\ buf = [i \in 0 .. SlotsPerPage - 1 |-> Empty]
    /\ seq = 1
    /\ deleted = [k \in 1 .. NKeys |-> 0]
    /\ hist = <<>> /\ lastpos = Cap
    /\ open = TRUE

RECURSIVE AppendAll(_, _, _, _, _)
\* returns [ring, slot, bufPage, buf] after appending the tombstones ts one by one
AppendAll(r, s, bp, b, ts) ==
    IF ts = <<>> THEN [ring |-> r, slot |-> s, bufPage |-> bp, buf |-> b]
    ELSE LET p == PageOf(s)
             \* crossing into another page: flush the buffer, load the new page
             r1 == IF p # bp THEN WritePage(r, bp, b) ELSE r
             b1 == IF p # bp THEN PageContent(r1, p) ELSE b
             b2 == [b1 EXCEPT ![OffOf(s)] = Head(ts)] IN
         AppendAll(r1, s + 1, p, b2, Tail(ts))

\* the order in which the tombstones ts (numbered in sequence order) of one batch reach the log
AppendOrders(ts) ==
    IF Flushers = 1 THEN {ts}
    ELSE LET part(r) == SelectSeq(ts, LAMBDA x : x[1] % 2 = r) IN {part(0) \o part(1), part(1) \o part(0)}

\* a batch of deletes is flushed: tombstones appended (per flusher in sequence order), buffer page flushed
\* s0 = the sequence of the first tombstone (sequences are shared with inserts)
AppendBatchFrom(ks, s0) ==
    /\ open
    /\ LET ts == [i \in 1 .. Len(ks) |-> <<ks[i], s0 + i - 1>>] IN
       \E ord \in AppendOrders(ts) :
         LET a == AppendAll(ring, slot, bufPage, buf, ord) IN
         /\ ring' = WritePage(a.ring, a.bufPage, a.buf)
         /\ slot' = a.slot /\ bufPage' = a.bufPage /\ buf' = a.buf
         /\ lastpos' = (a.slot - 1) % Cap
    /\ seq' = s0 + Len(ks)
    /\ deleted' = [k \in 1 .. NKeys |->
                     LET is == {i \in 1 .. Len(ks) : ks[i] = k} IN
                     IF is = {} THEN deleted[k]
                     ELSE s0 + (CHOOSE i \in is : \A j \in is : j <= i) - 1]
    /\ hist' = hist \o [i \in 1 .. Len(ks) |-> s0 + i - 1]
    /\ UNCHANGED open

AppendBatch(ks) == AppendBatchFrom(ks, seq)

\* process exit (graceful or crash: every append is flushed before it is acknowledged)
Close == open /\ open' = FALSE /\ UNCHANGED <<ring, slot, bufPage, buf, seq, deleted, hist, lastpos>>

PosOfMax(r) == CHOOSE x \in 0 .. Cap - 1 : \A y \in 0 .. Cap - 1 : r[y][2] <= r[x][2]
MaxSeq(r) == r[PosOfMax(r)][2]
\* going round the ring the sequences rise (up to the interleaving of the flushers) and drop once, at the tail:
\* the position with the largest drop from its predecessor (the last such position on ties, as max_by_key)
Monus(a, b) == IF a > b THEN a - b ELSE 0
DropAt(r, x) == Monus(r[(x + Cap - 1) % Cap][2], r[x][2])
PosOfDrop(r) == CHOOSE x \in 0 .. Cap - 1 :
                   /\ \A y \in 0 .. Cap - 1 : DropAt(r, y) <= DropAt(r, x)
                   /\ \A y \in x + 1 .. Cap - 1 : DropAt(r, y) < DropAt(r, x)
TailOf(r) == IF MaxSeq(r) = 0 THEN 1
             ELSE IF TailRule = "max" THEN PosOfMax(r) + 1 ELSE PosOfDrop(r)

\* TombstoneLog::open: tail right after the newest tombstone
Open ==
    /\ ~open
    /\ LET tail == TailOf(ring) IN
       /\ slot' = tail
       /\ bufPage' = PageOf(tail)
       /\ buf' = PageContent(ring, PageOf(tail))
    /\ open' = TRUE
    /\ seq' = IF MaxSeq(ring) >= seq THEN MaxSeq(ring) + 1 ELSE seq
    /\ UNCHANGED <<ring, deleted, hist, lastpos>>

\* close (graceful or not) immediately followed by open
Reopen ==
    /\ open
    /\ LET tail == TailOf(ring) IN
       /\ slot' = tail
       /\ bufPage' = PageOf(tail)
       /\ buf' = PageContent(ring, PageOf(tail))
    /\ seq' = IF MaxSeq(ring) >= seq THEN MaxSeq(ring) + 1 ELSE seq
    /\ UNCHANGED <<ring, deleted, hist, lastpos, open>>

Next ==
    \/ \E n \in 1 .. MaxBatch : \E ks \in [1 .. n -> 1 .. NKeys] : AppendBatch(ks)
    \/ Close \/ Open

Spec == Init /\ [][Next]_vars

-------------------------------------------------------------------------------
InRing(s) == \E x \in 0 .. Cap - 1 : ring[x][2] = s

\* with two flushers a tombstone may be appended up to one batch earlier than its sequence says, so it is
\* overwritten that much earlier when the ring wraps
Slack == IF Flushers = 1 THEN 0 ELSE MaxBatch
Retained(i) == i > Len(hist) - (Cap - 1 - Slack)

\* the most recent Cap-1 flushed tombstones are all in the durable log
RecentRetained ==
    \A i \in 1 .. Len(hist) : Retained(i) => InRing(hist[i])

\* recovery lets the tombstone suppress the older copy: a key whose latest delete is among the most
\* recent Cap-1 flushed tombstones reads as absent after any reopen
FlushedDeleteAbsent ==
    \A k \in 1 .. NKeys :
        (deleted[k] # 0 /\ \E i \in 1 .. Len(hist) : hist[i] = deleted[k] /\ Retained(i))
            => InRing(deleted[k])

\* the tail is right after the tombstone that was appended last (whatever its sequence)
TailAfterNewest ==
    (open /\ lastpos # Cap) => (slot % Cap) = ((lastpos + 1) % Cap)

BufferCoherent == open => \A i \in 0 .. SlotsPerPage - 1 :
                     buf[i] = ring[bufPage * SlotsPerPage + i]

Inv == RecentRetained /\ FlushedDeleteAbsent /\ TailAfterNewest /\ BufferCoherent
===============================================================================
