---- MODULE MC_Reclaim ----
EXTENDS Reclaim
CONSTANT MaxReclaims
Bound == Len(order) <= MaxReclaims
====
