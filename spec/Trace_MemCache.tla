---------------------------- MODULE Trace_MemCache ----------------------------
(***************************************************************************)
(* Trace validation, implementation -> specification, exact mode.          *)
(*                                                                         *)
(* The harness (`harness mem-replay --trace`, `harness mem-random`) writes *)
(* one NDJSON line per public call made on the real cache:                 *)
(*    {"op": {...arguments...}, "obs": {...what the API showed...}}        *)
(* Every line must be a step of MemCache's action for that call *and* show *)
(* exactly the observation the specification computes.  A line with        *)
(* op.name = "init" starts a fresh cache (several runs are concatenated).  *)
(* TLC evaluates MemCache!Inv in every state of the real execution.        *)
(*                                                                         *)
(* Acceptance is reported by the POSTCONDITION, which prints how many      *)
(* lines were consumed; the driver compares it with the trace length.      *)
(***************************************************************************)
EXTENDS MemCache, Json, IOUtils, TLCExt

CONSTANT ObsMode    \* "full": every component of the observation must match
                    \* "victims" (C14): only what the victim choice determines - which entries were
                    \*   evicted, in which order, and which keys are findable afterwards

VARIABLE l

Rec == ndJsonDeserialize(IOEnv.TRACE)

tvars == <<vars, l>>

Has(r, f) == f \in DOMAIN r

HeldObs == [i \in 1 .. Cardinality(Held) |->
                 LET r == SortedSeq(Held)[i] IN <<r, refs[r], IF Outdated(r) THEN 1 ELSE 0>>]

PresentSeq == SortedSeq(Present)

EvictSeq(evs) == LET s == SelectSeq(evs, LAMBDA e : e[1] = "evict") IN [i \in DOMAIN s |-> s[i][2]]

\* the observation of the *next* state equals the logged one
ObsOK(o) ==
  IF ObsMode = "victims"
  THEN /\ EvictSeq(out'.events) = EvictSeq(o.ev)
       /\ PresentSeq' = o.pr
  ELSE
    /\ out'.res = o.res
    /\ out'.events = o.ev
    /\ out'.piped = o.pp
    /\ TotalUsage' = o.u
    /\ TotalEntries' = o.n
    /\ PresentSeq' = o.pr
    /\ HeldObs' = o.hs

InitWith(c) ==
    /\ recs' = <<>> /\ refs' = <<>> /\ leaves' = <<>> /\ piped' = <<>>
    /\ idx' = [k \in Keys |-> NoRec]
    /\ cap' = [s \in ShardSet |-> ShardCap(c, s)]
    /\ ev' = [s \in ShardSet |-> EvNew(ShardCap(c, s))]
    /\ out' = [op |-> [name |-> "init", cap |-> c], res |-> 0, events |-> <<>>, piped |-> <<>>]
    /\ usage' = [s \in ShardSet |-> 0]
    /\ entries' = [s \in ShardSet |-> 0]
    /\ alive' = TRUE

StepFor(op) ==
    CASE op.name = "init"       -> InitWith(op.cap)
      [] op.name = "insert"     -> Insert(op.k, op.w, op.hint, op.ph, op.hold)
      [] op.name = "get"        -> Get(op.k, op.hold)
      [] op.name = "touch"      -> Touch(op.k)
      [] op.name = "contains"   -> Contains(op.k)
      [] op.name = "clone"      -> CloneHandle(op.r)
      [] op.name = "drop"       -> DropH(op.r)
      [] op.name = "remove"     -> Remove(op.k, op.hold)
      [] op.name = "clear"      -> Clear
      [] op.name = "resize"     -> Resize(op.cap)
      [] op.name = "evict_all"  -> EvictAll
      [] op.name = "flush"      -> Flush
      [] op.name = "drop_cache" -> DropCache

\* number of logged victims (admitted records evicted) of this call, per shard
NVictims(o, s) ==
    Cardinality({i \in DOMAIN o.ev : o.ev[i][1] = "evict" /\ o.ev[i][2] \in 1 .. Len(recs)
                                      /\ ~recs[o.ev[i][2]].ph /\ ShardOf(recs[o.ev[i][2]].key) = s})

\* C14 mode: how many records an operation evicts is taken from the log (that is C05's subject);
\* which ones, and in which order, must be what the algorithm's Pop yields
StepVictims(op, o) ==
    CASE op.name = "insert" /\ ~op.ph ->
            \E run \in PopN(ev[ShardOf(op.k)],
                             Append(recs, [key |-> op.k, w |-> op.w, hint |-> op.hint, ph |-> FALSE]),
                             usage[ShardOf(op.k)], NVictims(o, ShardOf(op.k)), <<>>) :
                InsertRun(op.k, op.w, op.hint, op.hold, run)
      [] op.name = "resize" ->
            /\ alive /\ UNCHANGED alive
            /\ cap' = [s \in ShardSet |-> ShardCap(op.cap, s)]
            /\ \E x \in PopNShards([s \in ShardSet |-> EvUpdate(ev[s], recs, ShardCap(op.cap, s))], usage,
                                    [s \in ShardSet |-> NVictims(o, s)], 0, <<>>) :
                  EvictToRun([name |-> "resize", cap |-> op.cap], x)
      [] op.name \in {"evict_all", "flush"} ->
            /\ alive /\ UNCHANGED <<cap, alive>>
            /\ \E x \in PopNShards(ev, usage, [s \in ShardSet |-> NVictims(o, s)], 0, <<>>) :
                  EvictToRun([name |-> op.name], x)
      [] OTHER -> StepFor(op)

TraceInit ==
    /\ l = 1
    /\ recs = <<>> /\ refs = <<>> /\ leaves = <<>> /\ piped = <<>>
    /\ idx = [k \in Keys |-> NoRec]
    /\ cap = [s \in ShardSet |-> 0]
    /\ ev = [s \in ShardSet |-> EvNew(0)]
    /\ out = [op |-> [name |-> "none"], res |-> 0, events |-> <<>>, piped |-> <<>>]
    /\ usage = [s \in ShardSet |-> 0]
    /\ entries = [s \in ShardSet |-> 0]
    /\ alive = FALSE

TraceNext ==
    /\ l <= Len(Rec)
    /\ IF ObsMode = "victims" THEN StepVictims(Rec[l].op, Rec[l].obs) ELSE StepFor(Rec[l].op)
    /\ ObsOK(Rec[l].obs)
    /\ l' = l + 1

TraceSpec == TraceInit /\ [][TraceNext]_tvars

\* properties evaluated in every state of the real execution
TraceInv == (out.op.name # "none" /\ ObsMode = "full") => Inv

Consumed ==
    /\ PrintT(<<"CONSUMED", TLCGet("stats").diameter - 1, Len(Rec)>>)
    /\ TRUE
===============================================================================
