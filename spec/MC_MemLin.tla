------------------------------ MODULE MC_MemLin ------------------------------
(* Generator of the concurrent histories of an atomic register with misses (every operation takes  *)
(* effect at one instant between its invocation and its response), composed with the monitor of     *)
(* MemLin: TLC shows the monitor raises nothing on any of them (Sound), and - with StaleReads = TRUE,*)
(* where a lookup may also answer a version overwritten before it started - that it does (the       *)
(* mutation self-test: the invariant must FAIL).                                                    *)
EXTENDS MemLin

CONSTANTS Threads, MaxOps, StaleReads

VARIABLES reg, hist, th, nv, nops

vars == <<mvars, reg, hist, th, nv, nops>>

Idle == [st |-> "idle", id |-> 0, k |-> 0, v |-> 0, kind |-> "none"]

Init ==
    /\ MInit
    /\ reg = [k \in Keys |-> 0] /\ hist = [k \in Keys |-> {}]
    /\ th = [t \in Threads |-> Idle] /\ nv = 0 /\ nops = 0

Invoke(t) ==
    /\ th[t].st = "idle" /\ nops < MaxOps
    /\ nops' = nops + 1
    /\ \E k \in Keys :
          \/ /\ InvWrite(nops + 1, k, nv + 1) /\ nv' = nv + 1
             /\ th' = [th EXCEPT ![t] = [st |-> "inv", id |-> nops + 1, k |-> k, v |-> nv + 1, kind |-> "w"]]
          \/ /\ InvWrite(nops + 1, k, 0) /\ nv' = nv
             /\ th' = [th EXCEPT ![t] = [st |-> "inv", id |-> nops + 1, k |-> k, v |-> 0, kind |-> "w"]]
          \/ /\ InvRead(nops + 1, k) /\ nv' = nv
             /\ th' = [th EXCEPT ![t] = [st |-> "inv", id |-> nops + 1, k |-> k, v |-> 0, kind |-> "r"]]
    /\ UNCHANGED <<reg, hist>>

Effect(t) ==
    /\ th[t].st = "inv"
    /\ IF th[t].kind = "w"
       THEN /\ reg' = [reg EXCEPT ![th[t].k] = th[t].v]
            /\ hist' = [hist EXCEPT ![th[t].k] = @ \cup {reg[th[t].k]}]
            /\ th' = [th EXCEPT ![t].st = "eff"]
       ELSE /\ \E r \in {0, reg[th[t].k]} \cup (IF StaleReads THEN hist[th[t].k] ELSE {}) :
                 th' = [th EXCEPT ![t].st = "eff", ![t].v = r]
            /\ UNCHANGED <<reg, hist>>
    /\ UNCHANGED <<mvars, nv, nops>>

Respond(t) ==
    /\ th[t].st = "eff"
    /\ IF th[t].kind = "w" THEN RespWrite(th[t].id) ELSE RespRead(th[t].id, th[t].v, FALSE)
    /\ th' = [th EXCEPT ![t] = Idle]
    /\ UNCHANGED <<reg, hist, nv, nops>>

Next == \E t \in Threads : Invoke(t) \/ Effect(t) \/ Respond(t)
Spec == Init /\ [][Next]_vars
Sound == Linearizable
==============================================================================
