------------------------------ MODULE DiskImage ------------------------------
(***************************************************************************)
(* The durable image of the block engine at page granularity, the flusher's *)
(* layout function (Splitter::split, buffer.rs), the block scanner and the  *)
(* recovery rule - properties C07 (what is written is what is read back),   *)
(* C04 (recovery after a crash at any device-write boundary, the write in   *)
(* flight possibly torn at page granularity) and the image-level part of    *)
(* C03.                                                                     *)
(*                                                                          *)
(* A block is BP pages.  A page holds one of                                *)
(*    [t |-> "zero"]                          cleaned / never written       *)
(*    [t |-> "idx", es |-> Seq([h,seq,off,len])] a sealed blob index; off   *)
(*                                            and len in pages, off         *)
(*                                            relative to the blob start    *)
(*    [t |-> "ent", k, v, h, seq, n, i]       page i (0-based) of the n     *)
(*                                            pages of an entry (key k,     *)
(*                                            version v)                    *)
(*    [t |-> "raw"]                           anything else (garbage)       *)
(* The blob index is one page here (IndexPages = 1, the default 4 KiB).     *)
(***************************************************************************)
EXTENDS Naturals, Sequences, FiniteSets, TLC

CONSTANTS
    Blocks,         \* set of block ids 0..NB-1
    BP,             \* pages per block
    IndexCap,       \* entries a blob index holds
    Keys, Hash

Zero == [t |-> "zero"]
Raw == [t |-> "raw"]
HashVals == {Hash[k] : k \in Keys}

-------------------------------------------------------------------------------
(* Scanner (scanner.rs) and recovery (recover.rs) as functions of an image   *)

RECURSIVE ScanFrom(_, _, _, _)
\* entries listed by the chain of intact blob indexes of block b, starting at page o
ScanFrom(img, b, o, acc) ==
    IF o + 1 > BP THEN acc
    ELSE LET d == img[b][o] IN
         IF d.t # "idx" THEN acc
         ELSE LET es == d.es
                  infos == [i \in DOMAIN es |->
                               [h |-> es[i].h, seq |-> es[i].seq, b |-> b, o |-> o + es[i].off, len |-> es[i].len]]
                  step == IF es = <<>> THEN BP ELSE es[Len(es)].off + es[Len(es)].len IN
              ScanFrom(img, b, o + step, acc \o infos)

RECURSIVE NonDecreasingPrefix(_, _)
\* recovery stops at the first entry whose sequence is lower than the previous one kept
NonDecreasingPrefix(s, last) ==
    IF s = <<>> THEN <<>>
    ELSE IF Head(s).seq < last THEN <<>>
    ELSE <<Head(s)>> \o NonDecreasingPrefix(Tail(s), Head(s).seq)

Scan(img, b) == NonDecreasingPrefix(ScanFrom(img, b, 0, <<>>), 0)

RECURSIVE BlockSeq(_)
BlockSeq(S) == IF S = {} THEN <<>>
               ELSE LET m == CHOOSE m \in S : \A y \in S : m <= y IN <<m>> \o BlockSeq(S \ {m})

RECURSIVE ConcatScans(_, _)
ConcatScans(img, bs) == IF bs = <<>> THEN <<>> ELSE Scan(img, Head(bs)) \o ConcatScans(img, Tail(bs))

NoIx == [kind |-> "none", seq |-> 0, b |-> 0, o |-> 0, len |-> 0]

RECURSIVE FoldEntries(_, _)
\* highest sequence per hash, later item wins ties (>=)
FoldEntries(ix, es) ==
    IF es = <<>> THEN ix
    ELSE LET e == Head(es) IN
         FoldEntries(IF ix[e.h].kind = "none" \/ e.seq >= ix[e.h].seq
                     THEN [ix EXCEPT ![e.h] = [kind |-> "addr", seq |-> e.seq, b |-> e.b, o |-> e.o, len |-> e.len]]
                     ELSE ix, Tail(es))

\* tombstones are applied after the entries; a tombstone with a sequence >= suppresses the entry
ApplyTombs(ix, ts) ==
    [h \in HashVals |->
        LET mine == {t \in ts : t.h = h} IN
        IF \E t \in mine : ix[h].kind = "none" \/ t.seq >= ix[h].seq THEN NoIx ELSE ix[h]]

\* the disk index after opening the image (tombs = the logged tombstones)
Rebuild(img, tombs) ==
    ApplyTombs(FoldEntries([h \in HashVals |-> NoIx], ConcatScans(img, BlockSeq(Blocks))), tombs)

MaxSeqOf(img, tombs) ==
    LET all == {e.seq : e \in {ConcatScans(img, BlockSeq(Blocks))[i] : i \in DOMAIN ConcatScans(img, BlockSeq(Blocks))}}
               \cup {t.seq : t \in tombs} IN
    IF all = {} THEN 0 ELSE CHOOSE m \in all : \A x \in all : x <= m

\* the entry stored at an address, if the pages there hold one intact entry from its first page
EntryAt(img, a) ==
    IF a.o + a.len > BP \/ a.len = 0 THEN [ok |-> FALSE]
    ELSE LET d == img[a.b][a.o] IN
         IF d.t = "ent" /\ d.i = 0 /\ d.n = a.len
            /\ \A j \in 0 .. a.len - 1 :
                  LET p == img[a.b][a.o + j] IN
                  p.t = "ent" /\ p.i = j /\ p.k = d.k /\ p.v = d.v /\ p.seq = d.seq /\ p.n = d.n
         THEN [ok |-> TRUE, k |-> d.k, v |-> d.v, h |-> d.h, seq |-> d.seq]
         ELSE [ok |-> FALSE]

\* Store::load through a given index: version of k, or 0 (miss)
Lookup(img, ix, k) ==
    LET x == ix[Hash[k]] IN
    IF x.kind # "addr" THEN 0
    ELSE LET e == EntryAt(img, x) IN
         IF e.ok /\ e.k = k THEN e.v ELSE 0

\* apply a device write of consecutive pages ps at page offset o of block b
WritePages(img, b, o, ps) ==
    [img EXCEPT ![b] = [p \in 0 .. BP - 1 |-> IF p >= o /\ p < o + Len(ps) THEN ps[p - o + 1] ELSE @[p]]]

-------------------------------------------------------------------------------
(* The layout function: Splitter::split with its context carried across      *)
(* batches.  ctx = [bo (blob offset in block), po (part offset in blob),     *)
(* ix (entries in the current blob index)].  An entry is [k,v,h,seq,n].      *)
(* Result: the sequence of device writes of the batch, in issue order per    *)
(* blob part (data, then index), with a marker where a new block starts.     *)

Ctx0 == [bo |-> 0, po |-> 1, ix |-> <<>>]

EntPages(e) == [i \in 1 .. e.n |-> [t |-> "ent", k |-> e.k, v |-> e.v, h |-> e.h, seq |-> e.seq, n |-> e.n, i |-> i - 1]]
RECURSIVE DataPages(_)
DataPages(es) == IF es = <<>> THEN <<>> ELSE EntPages(Head(es)) \o DataPages(Tail(es))
RECURSIVE SumN(_)
SumN(es) == IF es = <<>> THEN 0 ELSE Head(es).n + SumN(Tail(es))

\* the blob part accumulated so far becomes two writes (data at bo+po, index at bo)
PartWrites(ctx, part) ==
    IF part = <<>> THEN <<>>
    ELSE << [kind |-> "data", o |-> ctx.bo + ctx.po, ps |-> DataPages(part)],
            [kind |-> "index", o |-> ctx.bo, ps |-> <<[t |-> "idx", es |-> ctx.ix]>>] >>

RECURSIVE Split(_, _, _, _)
\* returns [ctx, ws]: ws = Seq of writes; a record [kind |-> "newblock"] separates blocks
Split(ctx, part, es, ws) ==
    IF es = <<>>
    THEN \* seal_blob
         IF part = <<>> THEN [ctx |-> ctx, ws |-> ws]
         ELSE LET w == PartWrites(ctx, part)
                  sz == SumN(part) IN
              [ctx |-> IF Len(ctx.ix) >= IndexCap
                       THEN [bo |-> ctx.bo + ctx.po + sz, po |-> 1, ix |-> <<>>]
                       ELSE [ctx EXCEPT !.po = @ + sz],
               ws |-> ws \o w]
    ELSE LET e == Head(es)
             sz == SumN(part) IN
         IF Len(ctx.ix) >= IndexCap
         THEN \* split blob: index full
              Split([bo |-> ctx.bo + ctx.po + sz, po |-> 1, ix |-> <<>>], <<>>, es, ws \o PartWrites(ctx, part))
         ELSE IF ctx.bo + ctx.po + sz + e.n > BP
         THEN \* split blob and block: block full
              Split([bo |-> 0, po |-> 1, ix |-> <<>>], <<>>, es,
                    ws \o PartWrites(ctx, part) \o <<[kind |-> "newblock"]>>)
         ELSE Split([ctx EXCEPT !.ix = Append(@, [h |-> e.h, seq |-> e.seq, off |-> ctx.po + sz, len |-> e.n])],
                    Append(part, e), Tail(es), ws)

Layout(ctx, es) == Split(ctx, <<>>, es, <<>>)
===============================================================================
