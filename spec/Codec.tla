-------------------------------- MODULE Codec --------------------------------
(***************************************************************************)
(* C08: the framing of entries in the flusher's buffer (Buffer::push,      *)
(* engine/block/buffer.rs) and the size-limit rule of Code::encode.        *)
(*                                                                         *)
(* An entry of encoded payload length len (value bytes then key bytes)     *)
(* needs Header + len bytes and occupies AlignUp(Header + len).  It is     *)
(* accepted iff the header fits in the remaining room, the payload fits    *)
(* behind it, and the aligned size does not exceed the per-entry limit;    *)
(* otherwise it is rejected as a whole and leaves no trace (the write      *)
(* position does not move).  Encoding a value of n bytes into a            *)
(* destination of d bytes succeeds iff n <= d and then writes exactly n    *)
(* bytes; otherwise it reports the size-limit error.                       *)
(***************************************************************************)
EXTENDS Naturals, Sequences

CONSTANTS Page, Header

AlignUp(x) == ((x + Page - 1) \div Page) * Page

Accept(room, used, len, maxEntry) ==
    /\ room - used >= Header                 \* (room >= used always)
    /\ Header + len <= room - used
    /\ AlignUp(Header + len) <= maxEntry

RECURSIVE Pack(_, _, _, _, _)
\* outcome of pushing the entries of lengths ls in order: Seq([ok, off]) (off = start of the entry)
Pack(room, used, maxEntry, ls, acc) ==
    IF ls = <<>> THEN acc
    ELSE IF Accept(room, used, Head(ls), maxEntry)
         THEN Pack(room, used + AlignUp(Header + Head(ls)), maxEntry, Tail(ls), Append(acc, [ok |-> TRUE, off |-> used]))
         ELSE Pack(room, used, maxEntry, Tail(ls), Append(acc, [ok |-> FALSE, off |-> used]))

EncodeOK(n, d) == n <= d
===============================================================================
