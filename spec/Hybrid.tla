-------------------------------- MODULE Hybrid --------------------------------
(***************************************************************************)
(* The hybrid cache (foyer/src/hybrid/cache.rs) over the disk store        *)
(* (foyer-storage: store.rs, keeper.rs, engine/block/{engine,flusher,      *)
(* indexer,recover,tombstone}.rs) at entry granularity - properties C01,   *)
(* C12, C15, C17 (disk part), and the crash/recovery part of C04.          *)
(*                                                                         *)
(* Memory tier: one shard, FIFO, every entry weight 1, capacity MemCap     *)
(* (the five real algorithms are an axis of the replay, where the driver   *)
(* uses evict_all instead of capacity pressure).  Handles are dropped at   *)
(* once.  Disk tier: plenty of space (no reclaim here; see Disk.tla), one  *)
(* flusher.  Versions are numbered by creation; truth[k] is the version of *)
(* the latest completed insert of k not followed by a completed remove.    *)
(*                                                                         *)
(* The write path is modelled step by step as the code does it:            *)
(*   Enqueue: admission filter -> keeper[k] := piece -> sequence++ ->      *)
(*            submission in the flusher's buffer (skipped if the engine is *)
(*            closed or the entry is Young: the PieceRef is dropped and    *)
(*            takes the keeper entry of that KEY with it)                  *)
(*   TakeBatch: buffer -> io task (only if no io task, flush not held)     *)
(*   BatchDone: data+index durable, index := addr if sequence >= current,  *)
(*            tombstones appended to the log; then keeper entries of the   *)
(*            batch's pieces released, flushed tombstones leave the index  *)
(*   Delete:  keeper entry of the key dropped, sequence++, index :=        *)
(*            tombstone (synchronously), submission                        *)
(*   Recover: per hash the highest sequence over durable entries and       *)
(*            logged tombstones; sequence restarts above everything        *)
(***************************************************************************)
EXTENDS Integers, Sequences, FiniteSets, TLC

CONSTANTS
    Keys, Hash,         \* Hash : [Keys -> Nat], possibly non-injective (the disk index is by hash)
    KeyLoc,             \* [Keys -> {"default","inmem","ondisk"}] placement advice used for every insert of the key
                        \* (keys whose advice alternates between in-memory-only and disk are outside C01)
    MemCap,             \* entries the memory tier holds
    Policy,             \* "woi" (write on insertion) | "woe" (write on eviction)
    FlushOnClose,       \* BOOLEAN
    TombLog,            \* BOOLEAN: tombstone log enabled
    Writer,             \* BOOLEAN: disk-only inserts are made through HybridCache::storage_writer, which consults the
                        \* admission filter itself before the insert (the enqueue then consults it a second time)
    Reject,             \* set of hashes the admission filter rejects (Store::enqueue then deletes the key from the
                        \* disk tier instead, so that no older copy of it stays readable)
    BufCap              \* entries the flusher's buffer holds (io buffer size / entry size); a submission that does
                        \* not fit is dropped (storage_queue_buffer_overflow)

VARIABLES S, out

vars == <<S, out>>

HashVals == {Hash[k] : k \in Keys}
NoIdx == [kind |-> "none", k |-> 0, v |-> 0, seq |-> 0]
Range(s) == {s[i] : i \in DOMAIN s}

S0 == [ mem    |-> <<>>,                       \* Seq([k, v, loc, age]) FIFO order, front = next victim
        keeper |-> [k \in Keys |-> 0],         \* version held in the write queue, by key
        buf    |-> <<>>,                       \* submissions received and not yet taken: <<"e",k,v,seq>> / <<"t",h,seq>>
        io     |-> <<>>,                       \* the batch in flight (its device writes are issued, not completed)
        inio   |-> FALSE,
        index  |-> [h \in HashVals |-> NoIdx],
        disk   |-> {},                         \* durable entries [h, k, v, seq]
        tlog   |-> {},                         \* durable tombstones [h, seq]
        seq    |-> 0,
        hold   |-> FALSE,                      \* flush switch
        gate   |-> FALSE,                      \* device writes held
        active |-> TRUE,
        stuck  |-> FALSE,
        prob   |-> FALSE,
        pget   |-> [k |-> 0, v |-> 0, ins |-> FALSE, rem |-> FALSE, insv |-> 0, vs |-> {}],   \* a lookup whose disk read is still in flight; ins / rem: an
                                               \* insert / remove of the key completed since it started
        big    |-> {},                         \* versions whose entry is larger than the disk tier accepts (refused by the flusher)                      \* every block is marked for imminent reclaim (probation): disk hits come back Old                      \* close() was called with device writes held: it cannot return (terminal)
        truth  |-> [k \in Keys |-> 0],
        loc    |-> [k \in Keys |-> "none"],    \* placement advice of the version that is truth[k]
        nv     |-> 0,
        vkey   |-> <<>>,                       \* key of version i
        heldph |-> <<>>,                       \* disk-only (phantom) records whose handle the caller still holds: <<k, v>>
        wsince |-> {},                         \* entries made durable since this process opened the store (they sit in the
                                               \* flusher's current, unsealed blob: small runs never fill a blob index)
        ghost  |-> {},                         \* entries wiped by clear() that the next non-empty batch lists again (finding F13)
        revived |-> {},                        \* keys of such entries: outside the invariants until their next insert
        lateread |-> {},                       \* keys whose removed value a late disk read put back into memory (finding F16)
        late   |-> {},                         \* keys republished by the late drop of an older disk-only handle (finding F12)
        shed   |-> {},                         \* keys whose latest disk write was shed (flush buffer full): outside C01 / C15
        touched |-> Keys,                      \* keys operated on since the last reopen (C15 looks at the others)
        enq    |-> <<>>,                       \* hashes offered to the disk tier (admission filter calls) in this step
        enqv   |-> <<>>,                       \* ... and the versions offered
        wr     |-> <<>> ]                      \* versions whose bytes were written to the device in this step

InMem(T, k) == \E i \in DOMAIN T.mem : T.mem[i].k = k
MemVer(T, k) == LET i == CHOOSE i \in DOMAIN T.mem : T.mem[i].k = k IN T.mem[i].v
MemWithout(T, k) == SelectSeq(T.mem, LAMBDA e : e.k # k)

-------------------------------------------------------------------------------
(* Store::enqueue                                                            *)
\* indexer insert_inner: replaced only by an equal-or-higher sequence
IndexPut(ix, h, new) == IF new.seq >= ix[h].seq \/ ix[h].kind = "none" THEN [ix EXCEPT ![h] = new] ELSE ix

Enqueue(T, k, v, age) ==
    LET T1 == [T EXCEPT !.enq = Append(@, Hash[k]), !.enqv = Append(@, v)] IN
    IF Hash[k] \in Reject
    THEN \* not admitted: Store::delete (a no-op once the engine is closed)
         IF T.active THEN [T1 EXCEPT !.keeper[k] = 0, !.seq = @ + 1,
                                     !.index = IndexPut(@, Hash[k], [kind |-> "tomb", k |-> 0, v |-> 0, seq |-> T.seq]),
                                     !.buf = Append(@, <<"t", Hash[k], T.seq>>)]
         ELSE T1
    ELSE IF ~T.active \/ age = "young"
    THEN [T1 EXCEPT !.keeper[k] = 0]            \* PieceRef dropped at once: removes the keeper entry of the key
    ELSE IF v \in T.big
    THEN [T1 EXCEPT !.keeper[k] = 0, !.seq = @ + 1, !.shed = @ \cup {k}]   \* over the per-entry limit: the flusher drops it
    ELSE IF Cardinality({i \in DOMAIN T.buf : T.buf[i][1] = "e"}) >= BufCap
    THEN [T1 EXCEPT !.keeper[k] = 0, !.seq = @ + 1, !.shed = @ \cup {k}]   \* buffer overflow: the flusher drops the piece
    ELSE [T1 EXCEPT !.keeper[k] = v, !.seq = @ + 1, !.shed = @ \ {k},
                    !.buf = Append(@, <<"e", k, v, T.seq>>)]

\* HybridCachePipe::send
PipeSend(T, e) == IF e.loc = "inmem" THEN T ELSE Enqueue(T, e.k, e.v, e.age)

RECURSIVE PipeSendAll(_, _)
PipeSendAll(T, es) == IF es = <<>> THEN T ELSE PipeSendAll(PipeSend(T, Head(es)), Tail(es))

\* memory insert of an admitted record: FIFO eviction of the overflow, victims go through the pipe
\* (only write-on-eviction installs a pipe)
MemInsert(T, k, v, loc, age) ==
    LET m0 == MemWithout(T, k)                       \* replace: old copy leaves (reason replace, no pipe)
        over == IF Len(m0) + 1 > MemCap THEN Len(m0) + 1 - MemCap ELSE 0
        \* evict-until-fits runs before the replace, with the old copy still counted
        overPre == IF Len(T.mem) + 1 > MemCap THEN Len(T.mem) + 1 - MemCap ELSE 0
        victims == SubSeq(T.mem, 1, overPre)
        rest == SubSeq(T.mem, overPre + 1, Len(T.mem))
        rest1 == SelectSeq(rest, LAMBDA e : e.k # k)
        T1 == [T EXCEPT !.mem = Append(rest1, [k |-> k, v |-> v, loc |-> loc, age |-> age])] IN
    IF Policy = "woe" THEN PipeSendAll(T1, victims) ELSE T1

-------------------------------------------------------------------------------
(* flusher and io task                                                        *)


RECURSIVE ApplyBatch(_, _)
\* data + blob index durable, then indexer.insert_batch; tombstones go to the log
ApplyBatch(T, b) ==
    IF b = <<>> THEN T
    ELSE LET x == Head(b) IN
         IF x[1] = "e"
         THEN LET h == Hash[x[2]]
                  ent == [h |-> h, k |-> x[2], v |-> x[3], seq |-> x[4]] IN
              ApplyBatch([T EXCEPT !.disk = @ \cup {ent} \cup T.ghost, !.wsince = @ \cup {ent}, !.wr = Append(@, x[3]),
                                   \* what the code does (finding F13, open): clear() zeroes the first page of every
                                   \* block but the flusher keeps appending to its current blob, whose index page -
                                   \* rewritten with every batch - still lists the entries written before the clear
                                   !.revived = @ \cup {g.k : g \in T.ghost}, !.ghost = {},
                                   !.index = IndexPut(@, h, [kind |-> "addr", k |-> x[2], v |-> x[3], seq |-> x[4]])],
                         Tail(b))
         ELSE ApplyBatch([T EXCEPT !.tlog = IF TombLog THEN @ \cup {[h |-> x[2], seq |-> x[3]]} ELSE @], Tail(b))

RECURSIVE Complete(_, _)
\* Runner::handle_io_complete: drop the piece refs (each removes the keeper entry of its key if that
\* entry is still this very piece), then indexer.remove_batch(tombstones)
Complete(T, b) ==
    IF b = <<>> THEN T
    ELSE LET x == Head(b) IN
         IF x[1] = "e" THEN Complete([T EXCEPT !.keeper[x[2]] = IF @ = x[3] THEN 0 ELSE @], Tail(b))
         ELSE IF x[2] \notin HashVals THEN Complete(T, Tail(b))      \* the marker tombstone of clear (hash 0)
         ELSE Complete([T EXCEPT !.index[x[2]] = IF x[3] >= @.seq /\ @.kind # "none" THEN NoIdx ELSE @], Tail(b))

BatchDone(T) == [Complete(ApplyBatch(T, T.io), T.io) EXCEPT !.io = <<>>, !.inio = FALSE]

RECURSIVE Pump(_)
\* the flusher runs until it has nothing to do or is blocked (flush held / writes gated)
Pump(T) ==
    IF T.inio
    THEN IF T.gate THEN T ELSE Pump(BatchDone(T))
    ELSE IF ~T.hold /\ T.buf # <<>>
         THEN Pump([T EXCEPT !.io = T.buf, !.buf = <<>>, !.inio = TRUE])
         ELSE T

-------------------------------------------------------------------------------
(* lookups: memory -> keeper -> disk index (+ key comparison)                *)

\* what Store::load returns for k: <<source, version>>
Load(T, k) ==
    IF T.keeper[k] # 0 THEN <<"keeper", T.keeper[k]>>
    ELSE LET ix == T.index[Hash[k]] IN
         IF ix.kind = "addr" /\ ix.k = k THEN <<"disk", ix.v>> ELSE <<"miss", 0>>

\* HybridCache::get: a disk/keeper hit populates memory (age young: not written again on eviction)
GetStep(T, k) ==
    IF InMem(T, k) THEN [T |-> T, res |-> MemVer(T, k), src |-> "mem"]
    ELSE LET l == Load(T, k) IN
         IF l[1] = "miss" THEN [T |-> T, res |-> 0, src |-> "miss"]
         ELSE IF l[1] = "keeper"
              THEN \* the queued record itself re-enters memory, with its own advice and age; a disk-only
                   \* (phantom) record is not admitted and, when the caller drops it, goes through the
                   \* pipe once more (KeeperHitReoffersDiskOnly: what the code does, see KNOWN_FINDINGS F09)
                   IF KeyLoc[k] = "ondisk"
                   THEN [T |-> IF Policy = "woe" THEN Enqueue(T, k, l[2], "fresh") ELSE T, res |-> l[2], src |-> l[1]]
                   ELSE [T |-> MemInsert(T, k, l[2], KeyLoc[k], "fresh"), res |-> l[2], src |-> l[1]]
              \* loaded from disk: Young (not written again on eviction) unless its block is about to be
              \* reclaimed: Old (written again, so that it survives the reclaim)
              ELSE [T |-> MemInsert(T, k, l[2], "default", IF T.prob THEN "old" ELSE "young"), res |-> l[2], src |-> l[1]]

-------------------------------------------------------------------------------
(* Actions (driver operations); every action ends with the flusher pumping   *)

Begin(T) == [T EXCEPT !.enq = <<>>, !.enqv = <<>>, !.wr = <<>>]

Init == S = S0 /\ out = [op |-> [a |-> "init"], res |-> 0]

\* insert_with_properties(k, v, location), handle dropped at once
\* Store::delete: the write-queue entry of the key is dropped, a tombstone with a fresh sequence replaces the
\* index entry at once and is submitted to the flusher
DiskDelete(T, k) ==
    [T EXCEPT !.keeper[k] = 0, !.seq = @ + 1,
              !.index = IndexPut(@, Hash[k], [kind |-> "tomb", k |-> 0, v |-> 0, seq |-> T.seq]),
              !.buf = Append(@, <<"t", Hash[k], T.seq>>)]

\* insert_with_properties(k, v, location); hold = the caller keeps the returned handle (else dropped at once)
InsertAny(k, nt, hold, isBig) ==
    /\ S.active
    /\ LET T == Begin(S)
           loc == KeyLoc[k]
           v == T.nv + 1
           T0 == [T EXCEPT !.nv = v, !.truth[k] = v, !.loc[k] = loc, !.vkey = Append(@, k),
                           !.touched = @ \cup {k}, !.late = @ \ {k}, !.revived = @ \ {k},
                           !.big = IF isBig THEN @ \cup {v} ELSE @,
                           \* the first insert inside the window of a pending lookup answers that lookup
                           !.pget = IF T.pget.k = k
                                    THEN [@ EXCEPT !.ins = TRUE, !.insv = IF T.pget.ins THEN @ ELSE v, !.vs = @ \cup {v}]
                                    ELSE @,
                           !.lateread = @ \ {k}]
           T1 == IF Writer /\ loc = "ondisk" THEN [T0 EXCEPT !.enq = Append(@, Hash[k]), !.enqv = Append(@, v)] ELSE T0
           T2 == IF loc = "ondisk"
                 THEN \* phantom: the old memory copy leaves (replace), the new record is never resident.
                      \* woi enqueues it at insert.  woe: it goes down the pipe when its last handle is
                      \* dropped; until then nothing of the key may be served from the disk tier, so the
                      \* older disk copy is invalidated at insert (fix for finding F11)
                      LET T3 == [T1 EXCEPT !.mem = MemWithout(T1, k)] IN
                      IF Policy = "woi" THEN Enqueue(T3, k, v, "fresh")
                      ELSE LET T4 == DiskDelete(T3, k) IN
                           IF hold THEN [T4 EXCEPT !.heldph = Append(@, <<k, v>>)] ELSE Enqueue(T4, k, v, "fresh")
                 ELSE LET T3 == MemInsert(T1, k, v, loc, "fresh") IN
                      IF Policy = "woi" /\ loc # "inmem" THEN Enqueue(T3, k, v, "fresh") ELSE T3 IN
       S' = IF nt THEN T2 ELSE Pump(T2)
    /\ out' = [op |-> [a |-> IF isBig THEN "ins_big" ELSE IF hold THEN "ins_h" ELSE IF nt THEN "ins_nt" ELSE "ins",
                       k |-> k, loc |-> KeyLoc[k]], res |-> 0]

InsertGen(k, nt, hold) == InsertAny(k, nt, hold, FALSE)
\* an entry larger than the disk tier accepts: it lives in memory; every hand-off to the disk tier is refused
InsertBig(k) == InsertAny(k, FALSE, FALSE, TRUE)
Insert(k) == InsertGen(k, FALSE, FALSE)
\* insert immediately followed by the caller's next call (the flusher task does not run in between)
InsertNoTurn(k) == InsertGen(k, TRUE, FALSE)
\* the caller keeps the returned handle
InsertHold(k) == InsertGen(k, FALSE, TRUE)

RECURSIVE EnqueueAll(_, _)
\* what the code does (finding F12, open): the record gets its sequence only now, so the drop of a handle to a
\* version that has been superseded or removed meanwhile publishes that version again as the newest on disk;
\* such keys are collected in `late` and are outside the invariants until their next insert
EnqueueAll(T, hs) ==
    IF hs = <<>> THEN T
    ELSE LET k == Head(hs)[1]
             v == Head(hs)[2]
             T1 == Enqueue(T, k, v, "fresh") IN
         EnqueueAll(IF T.truth[k] # v THEN [T1 EXCEPT !.late = @ \cup {k}] ELSE T1, Tail(hs))

\* the caller drops the handles it kept: a phantom record goes down the pipe on its last drop (woe)
DropHeld ==
    /\ LET T == Begin(S) IN
       S' = Pump(EnqueueAll([T EXCEPT !.heldph = <<>>], T.heldph))
    /\ out' = [op |-> [a |-> "drop_h"], res |-> 0]

Remove(k) ==
    /\ S.active
    /\ LET T == Begin(S)
           h == Hash[k]
           T1 == DiskDelete([T EXCEPT !.mem = MemWithout(T, k), !.truth[k] = 0, !.loc[k] = "none",
                                      !.touched = @ \cup {k}, !.pget.rem = IF T.pget.k = k THEN TRUE ELSE @,
                                      !.lateread = @ \ {k}], k) IN
       S' = Pump(T1)
    /\ out' = [op |-> [a |-> "rem", k |-> k], res |-> 0]

Get(k) ==
    /\ S.active /\ S.pget.k = 0
    /\ LET g == GetStep(Begin(S), k) IN
       /\ S' = Pump(g.T)
       /\ out' = [op |-> [a |-> "get", k |-> k], res |-> g.res]

\* A lookup whose disk read stays in flight (the device holds reads): the key is absent from memory and from the
\* write queue and the index points at an entry.  Until GetFinish other operations run.
GetStart(k) ==
    /\ S.active /\ S.pget.k = 0 /\ ~S.gate /\ ~S.hold
    /\ ~InMem(S, k) /\ S.keeper[k] = 0 /\ S.index[Hash[k]].kind = "addr" /\ S.index[Hash[k]].k = k
    /\ S' = [Begin(S) EXCEPT !.pget = [k |-> k, v |-> S.index[Hash[k]].v, ins |-> FALSE, rem |-> FALSE, insv |-> 0,
                                      vs |-> {S.index[Hash[k]].v}]]
    /\ out' = [op |-> [a |-> "get_start", k |-> k], res |-> 0]

\* The read completes.  An insert of the key that completed meanwhile took the in-flight entry over: the caller
\* is answered with the inserted entry and what the disk returned is dropped.  A remove alone does not stop
\* the fetch (what the code does: finding F16, open): the value read from the disk - by now a removed value -
\* is handed to the caller and put into memory; such keys are collected in `lateread`, outside the invariants
\* until their next insert or remove.  Otherwise the lookup proceeds as a plain one would now.
NoPGet == [k |-> 0, v |-> 0, ins |-> FALSE, rem |-> FALSE, insv |-> 0, vs |-> {}]
GetFinish ==
    /\ S.active /\ S.pget.k # 0
    /\ LET k == S.pget.k
           T == [Begin(S) EXCEPT !.pget = NoPGet] IN
       IF S.pget.ins
       THEN /\ S' = Pump(T)
            /\ out' = [op |-> [a |-> "get_finish"], res |-> S.pget.insv]
       ELSE IF S.pget.rem
       THEN /\ S' = Pump([MemInsert(T, k, S.pget.v, "default", IF T.prob THEN "old" ELSE "young")
                            EXCEPT !.lateread = @ \cup {k}])
            /\ out' = [op |-> [a |-> "get_finish"], res |-> S.pget.v]
       ELSE LET g == GetStep(T, k) IN
            /\ S' = Pump(g.T)
            /\ out' = [op |-> [a |-> "get_finish"], res |-> g.res]

\* Store::load called directly (the disk tier's own lookup: write queue, then index + key comparison); the
\* memory tier is neither consulted nor populated.  Under write-on-eviction the disk tier may legitimately
\* hold an older version than memory: the only thing the properties say about this call is that its answer
\* is a version of the key asked for (C17)
SLoad(k) ==
    /\ S.active /\ S.pget.k = 0
    /\ S' = Pump(Begin(S))
    /\ out' = [op |-> [a |-> "sload", k |-> k], res |-> Load(Begin(S), k)[2]]

\* get_or_fetch: the origin returns the current source-of-truth version of k (creating one if none)
Fetch(k) ==
    /\ S.active /\ S.pget.k = 0
    /\ LET T == Begin(S)
           g == GetStep(T, k) IN
       IF g.src # "miss"
       THEN /\ S' = Pump(g.T)       \* a hit in memory or on disk causes no disk write
            /\ out' = [op |-> [a |-> "fetch", k |-> k], res |-> g.res]
       ELSE LET fresh == T.truth[k] = 0
                v == IF fresh THEN T.nv + 1 ELSE T.truth[k]
                T1 == IF fresh THEN [T EXCEPT !.nv = v, !.truth[k] = v, !.loc[k] = KeyLoc[k],
                                              !.vkey = Append(@, k), !.touched = @ \cup {k}]
                      ELSE T
                \* the origin closure returns the value with the key's placement advice
                T2 == IF KeyLoc[k] = "ondisk" THEN [T1 EXCEPT !.mem = MemWithout(T1, k)]
                      ELSE MemInsert(T1, k, v, KeyLoc[k], "fresh")
                T3 == IF KeyLoc[k] = "ondisk" \/ (Policy = "woi" /\ KeyLoc[k] # "inmem")
                      THEN Enqueue(T2, k, v, "fresh") ELSE T2 IN
            /\ S' = Pump(T3)
            /\ out' = [op |-> [a |-> "fetch", k |-> k], res |-> v]

\* HybridCache::clear: memory.clear(), then Store::destroy: a tombstone with a fresh sequence is submitted,
\* everything queued is flushed (wait), then the index is cleared and every block is cleaned
Clear ==
    /\ S.active /\ ~S.hold /\ ~S.gate /\ S.pget.k = 0
    /\ LET T == Begin(S)
           T1 == [T EXCEPT !.mem = <<>>, !.truth = [k \in Keys |-> 0], !.loc = [k \in Keys |-> "none"],
                           !.touched = Keys, !.seq = @ + 1, !.buf = Append(@, <<"t", 0, T.seq>>)]
           T2 == Pump(T1) IN
       S' = [T2 EXCEPT !.index = [h \in HashVals |-> NoIdx], !.disk = {}, !.shed = {}, !.late = {}, !.lateread = {},
                       !.ghost = T2.wsince, !.revived = {}]
    /\ out' = [op |-> [a |-> "clear"], res |-> 0]

\* the eviction picker marks blocks for imminent reclaim (forced through the guarded hook
\* Store::verif_mark_probation: all blocks at once)
MarkProbation ==
    /\ S.active /\ ~S.prob
    /\ S' = Pump([Begin(S) EXCEPT !.prob = TRUE])
    /\ out' = [op |-> [a |-> "probation"], res |-> 0]

EvictAll ==
    /\ S.active
    /\ LET T == Begin(S)
           T1 == [T EXCEPT !.mem = <<>>] IN
       S' = Pump(IF Policy = "woe" THEN PipeSendAll(T1, T.mem) ELSE T1)
    /\ out' = [op |-> [a |-> "evict_all"], res |-> 0]

\* evict_all immediately followed by the caller's next call: the flusher task does not get to run in between,
\* the evicted entries are still queued when the next operation starts
EvictAllNoTurn ==
    /\ S.active
    /\ LET T == Begin(S)
           T1 == [T EXCEPT !.mem = <<>>] IN
       S' = IF Policy = "woe" THEN PipeSendAll(T1, T.mem) ELSE T1
    /\ out' = [op |-> [a |-> "evict_all_nt"], res |-> 0]

Hold   == S.active /\ ~S.hold /\ S' = [Begin(S) EXCEPT !.hold = TRUE] /\ out' = [op |-> [a |-> "hold"], res |-> 0]
Unhold == S.hold /\ S' = Pump([Begin(S) EXCEPT !.hold = FALSE]) /\ out' = [op |-> [a |-> "unhold"], res |-> 0]
GateOn == S.active /\ S.pget.k = 0 /\ ~S.gate /\ S' = [Begin(S) EXCEPT !.gate = TRUE] /\ out' = [op |-> [a |-> "gate_on"], res |-> 0]
GateOff == S.gate /\ S' = Pump([Begin(S) EXCEPT !.gate = FALSE]) /\ out' = [op |-> [a |-> "gate_off"], res |-> 0]
\* the writes of the batch in flight complete while the flush switch keeps the next batch from being
\* taken: the window in which newer submissions of the same keys sit in the buffer
GateStep == S.gate /\ S.inio /\ S.hold /\ S' = Pump(BatchDone(Begin(S))) /\ out' = [op |-> [a |-> "gate_step"], res |-> 0]

\* close(): flush memory through the pipe if configured (only write-on-eviction has a pipe), then
\* the engine stops accepting work and waits for the flusher
Close ==
    /\ S.active /\ ~S.hold /\ ~S.gate /\ S.heldph = <<>> /\ S.pget.k = 0
    /\ LET T == Pump(Begin(S))          \* HybridCachePipe::flush first waits for everything queued (store.wait())
           T1 == IF FlushOnClose /\ Policy = "woe"
                 THEN PipeSendAll([T EXCEPT !.mem = <<>>], T.mem)
                 ELSE IF FlushOnClose THEN [T EXCEPT !.mem = <<>>] ELSE T IN
       S' = [Pump(T1) EXCEPT !.active = FALSE]
    /\ out' = [op |-> [a |-> "close"], res |-> 0]

\* close() while the device holds the writes of the batch in flight: the call cannot return before they complete
\* (flush on close first waits for the flushers; without it Store::close waits for them).  The driver gives
\* up on the call; nothing further is driven in such a run.  Memory has been handed to the flush by then.
CloseGated ==
    /\ S.active /\ S.gate /\ ~S.hold /\ S.inio /\ S.heldph = <<>> /\ S.pget.k = 0
    /\ S' = [Begin(S) EXCEPT !.stuck = TRUE, !.mem = IF FlushOnClose THEN <<>> ELSE @]
    /\ out' = [op |-> [a |-> "close"], res |-> 0 - 2]

\* highest sequence per hash over durable entries and logged tombstones (ties: the tombstone)
Recovered(T) ==
    [h \in HashVals |->
        LET es == {e \in T.disk : e.h = h}
            ts == {t \in T.tlog : t.h = h}
            maxE == IF es = {} THEN 0 ELSE CHOOSE m \in {e.seq : e \in es} : \A e \in es : e.seq <= m
            maxT == IF ts = {} THEN 0 ELSE CHOOSE m \in {t.seq : t \in ts} : \A t \in ts : t.seq <= m IN
        IF es = {} \/ (ts # {} /\ maxT >= maxE) THEN NoIdx
        ELSE LET e == CHOOSE e \in es : e.seq = maxE IN [kind |-> "addr", k |-> e.k, v |-> e.v, seq |-> e.seq]]

MaxSeq(T) == LET all == {e.seq : e \in T.disk} \cup {t.seq : t \in T.tlog} IN
             IF all = {} THEN 0 ELSE CHOOSE m \in all : \A x \in all : x <= m

\* a new process opens the same device
Reopen ==
    /\ ~S.active
    /\ S' = [S0 EXCEPT !.disk = S.disk, !.tlog = S.tlog, !.index = Recovered(S), !.seq = MaxSeq(S) + 1,
                      !.truth = S.truth, !.loc = S.loc, !.nv = S.nv, !.vkey = S.vkey, !.touched = {},
                      !.shed = S.shed, !.late = S.late, !.revived = S.revived, !.big = S.big]
    /\ out' = [op |-> [a |-> "reopen"], res |-> 0]

-------------------------------------------------------------------------------
(* Properties                                                                *)

\* C01 as a state predicate: what a lookup of k would return now
WouldRead(k) == GetStep(S, k).res
\* keys outside C01's claim: advice alternating between in-memory-only and disk (handled by the driver:
\* a key keeps its class); keys whose latest write was shed by a full flush buffer (S.shed)
NoStaleNoForeign == \A k \in Keys \ (S.shed \cup S.late \cup S.revived \cup S.lateread) : WouldRead(k) \in {0, S.truth[k]}
LastLookupOK == (out.op.a \in {"get", "fetch"} /\ out.op.k \notin S.shed \cup S.late \cup S.revived \cup S.lateread) => out.res \in {0, S.truth[out.op.k]}

\* C12
\* an entry the admission filter rejects never reaches the device
RejectedNeverOnDevice == \A e \in S.disk : e.h \notin Reject
InMemNeverOnDevice == \A e \in S.disk : \A k \in Keys : (e.k = k /\ S.truth[k] = e.v) => S.loc[k] # "inmem"
OnDiskNotRetained == \A i \in DOMAIN S.mem : S.mem[i].loc # "ondisk"
\* a lookup that hits does not offer the entry it returned to the disk tier again (evictions that
\* the population of memory causes are capacity evictions of *other* entries)
HitCausesNoWrite == (out.op.a = "get" /\ out.res # 0 /\ KeyLoc[out.op.k] # "ondisk") => out.res \notin Range(S.enqv)

\* C15: after close (flush on close, resident set within the buffer) + reopen every entry that was
\* resident and not in-memory-only is retrievable with its latest value - evaluated at Reopen
\* the disk tier indexes by hash alone: of two keys with the same 64-bit hash it holds one
Collides(k) == \E k2 \in Keys \ {k} : Hash[k2] = Hash[k]
ClosePersists ==
    (out.op.a = "reopen" /\ FlushOnClose) =>
        \A k \in Keys \ (S.shed \cup S.late \cup S.revived \cup S.lateread) : (S.truth[k] # 0 /\ S.loc[k] # "inmem" /\ ~Collides(k) /\ Hash[k] \notin Reject) => WouldRead(k) = S.truth[k]

TypeOK == /\ Len(S.mem) <= MemCap
          /\ S.inio = (S.io # <<>>)

\* the disk tier's own lookup answers with a version of the key asked for
StoreLoadOwnKey == out.op.a = "sload" => (out.res = 0 \/ S.vkey[out.res] = out.op.k)

\* (nothing is claimed about the state left behind by a close() that could not return: the run ends there)
Inv == S.stuck \/ (TypeOK /\ NoStaleNoForeign /\ LastLookupOK /\ StoreLoadOwnKey /\ OnDiskNotRetained /\ HitCausesNoWrite
       /\ InMemNeverOnDevice /\ RejectedNeverOnDevice /\ ClosePersists)
===============================================================================
