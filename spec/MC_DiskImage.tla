---------------------------- MODULE MC_DiskImage ----------------------------
(***************************************************************************)
(* A writer that lays batches out with DiskImage!Layout, issues the device *)
(* writes one at a time, can be killed at any write boundary with the      *)
(* write in flight torn at any page, and recovers.  No block is reused     *)
(* (device larger than the workload), so "while no block has been          *)
(* reclaimed" holds throughout.                                            *)
(***************************************************************************)
EXTENDS DiskImage

CONSTANTS EntrySizes, MaxBatch, MaxEntries, MaxCrashes,
          MaxFaults       \* device faults (C03): 0 in the C04 / C07 configurations

VARIABLES
    img,        \* [Blocks -> [0..BP-1 -> page]]
    ctx,        \* split context of the flusher
    cur,        \* block the flusher writes to
    pending,    \* writes of the batch in flight: [b, o, ps, last] (last = final write of its batch)
    batch,      \* entries of the batch in flight
    nv,         \* version / sequence counter (one sequence per version here)
    stored,     \* [Keys -> SUBSET Nat] versions ever submitted for the key
    acked,      \* [Keys -> Nat] latest version whose flush was acknowledged
    written,    \* Seq([h, seq, k, v, b, o, len]) entries whose data and index writes were issued
    crashes,
    faults      \* number of device faults injected so far

vars == <<img, ctx, cur, pending, batch, nv, stored, acked, written, crashes, faults>>

Init ==
    /\ img = [b \in Blocks |-> [p \in 0 .. BP - 1 |-> Zero]]
    /\ ctx = Ctx0 /\ cur = 0 /\ pending = <<>> /\ batch = <<>> /\ nv = 0
    /\ stored = [k \in Keys |-> {}] /\ acked = [k \in Keys |-> 0]
    /\ written = <<>> /\ crashes = 0 /\ faults = 0

RECURSIVE Assign(_, _, _)
\* give every write of a layout its block: the current one, then the following ones
Assign(ws, b, acc) ==
    IF ws = <<>> THEN [ws |-> acc, b |-> b]
    ELSE IF Head(ws).kind = "newblock" THEN Assign(Tail(ws), b + 1, acc)
    ELSE Assign(Tail(ws), b, Append(acc, [b |-> b, o |-> Head(ws).o, ps |-> Head(ws).ps, kind |-> Head(ws).kind]))

RECURSIVE MkBatch(_, _, _)
MkBatch(ks, ns, v) ==
    IF ks = <<>> THEN <<>>
    ELSE <<[k |-> Head(ks), v |-> v + 1, h |-> Hash[Head(ks)], seq |-> v + 1, n |-> Head(ns)]>>
         \o MkBatch(Tail(ks), Tail(ns), v + 1)

\* entries of a layout with their addresses (from the index writes)
RECURSIVE AddrsOf(_, _)
AddrsOf(ws, es) ==
    IF ws = <<>> THEN <<>>
    ELSE LET w == Head(ws) IN
         IF w.kind # "index" THEN AddrsOf(Tail(ws), es)
         ELSE LET mine == SelectSeq(w.ps[1].es, LAMBDA x : \E j \in DOMAIN es : es[j].seq = x.seq
                                                   /\ ~\E y \in DOMAIN AddrsOf(Tail(ws), es) : AddrsOf(Tail(ws), es)[y].seq = x.seq) IN
              [i \in DOMAIN mine |->
                  LET x == mine[i]
                      e == CHOOSE e \in {es[j] : j \in DOMAIN es} : e.seq = x.seq IN
                  [h |-> x.h, seq |-> x.seq, k |-> e.k, v |-> e.v, b |-> w.b, o |-> w.o + x.off, len |-> x.len]]
              \o AddrsOf(Tail(ws), es)

Submit ==
    /\ pending = <<>> /\ nv < MaxEntries
    /\ \E n \in 1 .. MaxBatch : \E ks \in [1 .. n -> Keys], ns \in [1 .. n -> EntrySizes] :
          LET es == MkBatch(ks, ns, nv)
              lay == Layout(ctx, es)
              asg == Assign(lay.ws, cur, <<>>) IN
          /\ nv + n <= MaxEntries
          /\ asg.b \in Blocks                       \* enough clean blocks
          /\ pending' = asg.ws /\ batch' = es
          /\ ctx' = lay.ctx /\ cur' = asg.b /\ nv' = nv + n
          /\ stored' = [k \in Keys |-> stored[k] \cup {es[i].v : i \in {i \in DOMAIN es : es[i].k = k}}]
          /\ written' = written \o AddrsOf(asg.ws, es)
    /\ UNCHANGED <<img, acked, crashes, faults>>

Complete ==
    /\ pending # <<>>
    /\ LET w == Head(pending) IN
       /\ img' = WritePages(img, w.b, w.o, w.ps)
       /\ pending' = Tail(pending)
       /\ acked' = IF Len(pending) = 1
                   THEN [k \in Keys |->
                           LET vs == {batch[i].v : i \in {i \in DOMAIN batch : batch[i].k = k}} IN
                           IF vs = {} THEN acked[k] ELSE CHOOSE m \in vs : \A x \in vs : x <= m]
                   ELSE acked
       /\ batch' = IF Len(pending) = 1 THEN <<>> ELSE batch
    /\ UNCHANGED <<ctx, cur, nv, stored, written, crashes, faults>>

\* first t pages of the write in flight reach the device
Torn(im, t) == IF pending = <<>> \/ t = 0 THEN im
               ELSE LET w == Head(pending) IN WritePages(im, w.b, w.o, SubSeq(w.ps, 1, t))
TearPoints == IF pending = <<>> THEN {0} ELSE 0 .. Len(Head(pending).ps)

\* the process dies; the next one starts on the first block that recovery finds clean
Crash ==
    /\ crashes < MaxCrashes
    /\ \E t \in TearPoints :
          LET im == Torn(img, t)
              clean == {b \in Blocks : Scan(im, b) = <<>>} IN
          /\ clean # {}
          /\ img' = im
          /\ cur' = CHOOSE b \in clean : \A y \in clean : b <= y
          \* entries that recovery cannot see any more are not "written" for the scanner comparison
          /\ written' = SelectSeq(written, LAMBDA e :
                            \E i \in DOMAIN ConcatScans(im, BlockSeq(Blocks)) :
                                ConcatScans(im, BlockSeq(Blocks))[i].seq = e.seq)
    /\ pending' = <<>> /\ batch' = <<>> /\ ctx' = Ctx0
    /\ nv' = IF MaxSeqOf(img', {}) > nv THEN MaxSeqOf(img', {}) ELSE nv
    /\ crashes' = crashes + 1
    /\ UNCHANGED <<stored, acked, faults>>

\* C03: the device returns something else for one page: zeroes, garbage, the content of another page (same or
\* other block: misdirected / swapped), or - since every page value the run ever wrote is still somewhere in
\* the reachable images of this model - an older generation is covered by the copy case of the blob index page.
\* Assumption of the protection model: a checksummed region that changed fails its checksum (a damaged index
\* or entry page reads as "raw"); a page moved as a whole keeps its checksums.
Fault ==
    /\ faults < MaxFaults /\ pending = <<>>
    /\ \E b \in Blocks, p \in 0 .. BP - 1 :
          \/ img' = [img EXCEPT ![b][p] = Zero]
          \/ img' = [img EXCEPT ![b][p] = Raw]
          \/ \E b2 \in Blocks, p2 \in 0 .. BP - 1 : img' = [img EXCEPT ![b][p] = img[b2][p2]]
          \/ \E b2 \in Blocks, p2 \in 0 .. BP - 1 : img' = [img EXCEPT ![b][p] = img[b2][p2], ![b2][p2] = img[b][p]]
    /\ faults' = faults + 1
    /\ UNCHANGED <<ctx, cur, pending, batch, nv, stored, acked, written, crashes>>

Next == Submit \/ Complete \/ Crash \/ Fault
Spec == Init /\ [][Next]_vars

-------------------------------------------------------------------------------
(* C04: for every crash point of the current state (every tear of the write in flight)            *)
AfterCrash(t, k) == LET im == Torn(img, t) IN Lookup(im, Rebuild(im, {}), k)

RecoveredValuesWereStored == \A t \in TearPoints, k \in Keys : AfterCrash(t, k) \in {0} \cup stored[k]
\* no block is ever reclaimed here: an acknowledged version, or a newer one, never an older one or a miss
AckedNotOlder == \A t \in TearPoints, k \in Keys : acked[k] # 0 => AfterCrash(t, k) >= acked[k]
\* the counter restarts above everything recovered: later versions supersede earlier ones
PostRestartSupersedes == nv >= MaxSeqOf(img, {})

(* C07 *)
InsideOneBlock == \A i \in DOMAIN pending : pending[i].o + Len(pending[i].ps) <= BP
\* pages a scan of the image reaches: blob indexes in the chain and the entries they list
Live(b, p) ==
    LET sc == Scan(img, b) IN
    \/ \E i \in DOMAIN sc : p >= sc[i].o /\ p < sc[i].o + sc[i].len
    \/ (img[b][p].t = "idx" /\ \E i \in DOMAIN sc : \E x \in DOMAIN img[b][p].es :
            img[b][p].es[x].seq = sc[i].seq /\ sc[i].o = p + img[b][p].es[x].off)
\* a write never lands on a live entry or a live index page - except the index page of the blob being
\* extended, which is replaced by a longer index with the same prefix (orphans of a crash may be overwritten)
NoOverlap ==
    pending # <<>> =>
        LET w == Head(pending) IN
        \A j \in 1 .. Len(w.ps) :
            LET p == w.o + j - 1
                old == img[w.b][p] IN
            IF w.kind = "data" THEN ~Live(w.b, p)
            ELSE ~Live(w.b, p) \/ (old.t = "idx" /\ Len(old.es) <= Len(w.ps[j].es)
                                    /\ \A x \in DOMAIN old.es : old.es[x] = w.ps[j].es[x])
Addr(e) == [h |-> e.h, seq |-> e.seq, b |-> e.b, o |-> e.o, len |-> e.len]
ScanReconstructsWritten ==
    pending = <<>> =>
        {ConcatScans(img, BlockSeq(Blocks))[i] : i \in DOMAIN ConcatScans(img, BlockSeq(Blocks))}
            = {Addr(written[i]) : i \in DOMAIN written}
IndexAddressesLoadable ==
    pending = <<>> =>
        \A i \in DOMAIN written :
            LET e == EntryAt(img, written[i]) IN e.ok /\ e.k = written[i].k /\ e.v = written[i].v

\* C03 at image level: whatever the faults, recovery is total and every lookup is a stored value of the key or a miss
FaultInv == RecoveredValuesWereStored

Inv == RecoveredValuesWereStored /\ AckedNotOlder /\ PostRestartSupersedes /\ InsideOneBlock /\ NoOverlap
       /\ ScanReconstructsWritten /\ IndexAddressesLoadable

\* reachability witnesses (expected to be violated): the layout cases C07 names
W_IndexFilledExactly == ~(\E b \in Blocks, p \in 0 .. BP - 1 : img[b][p].t = "idx" /\ Len(img[b][p].es) = IndexCap)
W_BlockFilledExactly == ~(\E i \in DOMAIN written : written[i].o + written[i].len = BP)
W_BlobContinued == ~(\E b \in Blocks, p \in 0 .. BP - 1 : img[b][p].t = "idx" /\ pending # <<>>
                        /\ Head(pending).kind = "index" /\ Head(pending).b = b /\ Head(pending).o = p)
W_BatchSpansBlocks == ~(\E i, j \in DOMAIN pending : pending[i].b # pending[j].b)
=============================================================================
