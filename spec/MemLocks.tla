------------------------------- MODULE MemLocks -------------------------------
(***************************************************************************)
(* C16: user callbacks run outside the cache's locks.                      *)
(*                                                                         *)
(* Every public operation of the memory cache is a sequence of phases:     *)
(*    pre   weighter / filter evaluated (user code)                        *)
(*    lock  the shard lock is taken (read or write, by the algorithm's Op) *)
(*    crit  index / eviction container mutated; garbage collected in a     *)
(*          local vector; in-flight mutex nested inside                    *)
(*    unl   the shard lock is released                                     *)
(*    post  waiters notified, listener called for every garbage record,    *)
(*          pipe offered the evicted ones, records (values) dropped        *)
(* User code (pre, post) may call back into the same cache: a nested       *)
(* operation of the same thread, which needs the same shard lock.  A lock  *)
(* is not re-entrant: taking it while the thread already holds it blocks   *)
(* for ever.  Threads interleave at phase granularity.                     *)
(*                                                                         *)
(* CallbackUnderLock = TRUE models the defect the property excludes (the   *)
(* listener invoked inside the critical section): TLC must then report a   *)
(* deadlock / the invariant - the self-test of this module.                *)
(***************************************************************************)
EXTENDS Naturals, Sequences, FiniteSets, TLC

CONSTANTS Threads, Shards, MaxDepth, MaxOps, CallbackUnderLock

VARIABLES
    stack,      \* [Threads -> Seq([shard, phase])]  call stack of each thread (nested = re-entrant calls)
    lock,       \* [Shards -> [w |-> thread or 0, r |-> multiset as function thread -> count]]
    ops         \* operations started so far

vars == <<stack, lock, ops>>

NoLock == [w |-> 0, r |-> [t \in Threads |-> 0]]
Top(t) == stack[t][Len(stack[t])]
SetTop(t, f) == [stack EXCEPT ![t] = [@ EXCEPT ![Len(@)] = f]]
Pop(t) == [stack EXCEPT ![t] = SubSeq(@, 1, Len(@) - 1)]

Init == stack = [t \in Threads |-> <<>>] /\ lock = [s \in Shards |-> NoLock] /\ ops = 0

Readers(s) == {t \in Threads : lock[s].r[t] > 0}
CanWrite(s, t) == lock[s].w = 0 /\ Readers(s) = {}
CanRead(s, t) == lock[s].w = 0

\* a thread starts an operation on shard s: top level, or from user code of the frame it is in
Start(t, s, mode) ==
    /\ ops < MaxOps
    /\ \/ stack[t] = <<>>
       \/ /\ stack[t] # <<>> /\ Len(stack[t]) < MaxDepth
          /\ \/ Top(t).phase \in {"pre", "post"}
             \/ (CallbackUnderLock /\ Top(t).phase = "crit")       \* the excluded defect
    /\ stack' = [stack EXCEPT ![t] = Append(@, [shard |-> s, phase |-> "pre", mode |-> mode])]
    /\ ops' = ops + 1
    /\ UNCHANGED lock

Step(t) ==
    /\ stack[t] # <<>>
    /\ LET f == Top(t)
           s == f.shard IN
       CASE f.phase = "pre" ->
              \* take the shard lock (blocks while it is not available - also if this very thread holds it)
              /\ IF f.mode = "w" THEN CanWrite(s, t) ELSE CanRead(s, t)
              /\ lock' = [lock EXCEPT ![s] = IF f.mode = "w" THEN [@ EXCEPT !.w = t]
                                             ELSE [@ EXCEPT !.r = [@ EXCEPT ![t] = @ + 1]]]
              /\ stack' = SetTop(t, [f EXCEPT !.phase = "crit"])
         [] f.phase = "crit" ->
              /\ lock' = [lock EXCEPT ![s] = IF f.mode = "w" THEN [@ EXCEPT !.w = 0]
                                             ELSE [@ EXCEPT !.r = [@ EXCEPT ![t] = @ - 1]]]
              /\ stack' = SetTop(t, [f EXCEPT !.phase = "post"])
         [] f.phase = "post" ->
              /\ stack' = Pop(t) /\ UNCHANGED lock
    /\ UNCHANGED ops

Next == \E t \in Threads : Step(t) \/ \E s \in Shards, m \in {"r", "w"} : Start(t, s, m)
Spec == Init /\ [][Next]_vars

Holds(t) == {s \in Shards : lock[s].w = t \/ lock[s].r[t] > 0}
\* user code of a thread never runs while that thread holds a shard lock
NoCallbackUnderLock ==
    \A t \in Threads : \A i \in 1 .. Len(stack[t]) :
        stack[t][i].phase \in {"pre", "post"} => \A j \in 1 .. i : stack[t][j].phase # "crit"
\* every started operation can finish: whenever some thread is inside an operation, some thread can step
NoDeadlock == (\E t \in Threads : stack[t] # <<>>) => \E t \in Threads : ENABLED Step(t)
Inv == NoCallbackUnderLock /\ NoDeadlock
===============================================================================
