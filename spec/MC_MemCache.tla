----------------------------- MODULE MC_MemCache -----------------------------
(***************************************************************************)
(* Bounded instance of MemCache for TLC.                                   *)
(*  - invariant runs:  Emit = "none", no VIEW, hist stays empty            *)
(*  - random behaviours: Emit = "sim" under `tlc -simulate`: one script    *)
(*    per behaviour with the expected observation after every step         *)
(*  - edge emission:   Emit = "edges", VIEW MCView (hides hist/out); TLC    *)
(*    evaluates PrintT once per generated successor, i.e. once per edge of *)
(*    the reachable graph; every line is a driver script: the operations   *)
(*    of the first-found path to the edge's source state, the edge's own   *)
(*    operation, and the expected observation after it (the observations   *)
(*    of the prefix are the subject of the prefix's own lines).  Replayed  *)
(*    on the real cache by `harness mem-replay`.                           *)
(***************************************************************************)
EXTENDS MemCache, Json

CONSTANTS
    Weights,    \* weights an insert may carry
    Hints,      \* subset of {"normal","low"}
    Phantoms,   \* subset of BOOLEAN: may the filter reject
    Caps,       \* resize targets
    MaxIns,     \* bound on inserts
    MaxSteps,   \* bound on operations
    MaxHeld,    \* bound on simultaneously held handles
    OpSet,      \* names of enabled operations
    Emit        \* "none" | "edges" (one script per edge) | "sim" (one script per behaviour, printed at MaxSteps)

VARIABLES hist, steps

mcvars == <<vars, hist, steps>>

HeldCount == SumF([r \in 1 .. Len(refs) |-> refs[r]], 1 .. Len(refs))

HandleObs == [i \in 1 .. Cardinality(Held) |->
                 LET r == SortedSeq(Held)[i] IN <<r, refs[r], IF Outdated(r) THEN 1 ELSE 0>>]

Obs == [res |-> out.res, ev |-> out.events, pp |-> out.piped,
        u |-> TotalUsage, n |-> TotalEntries,
        pr |-> SortedSeq(Present), hs |-> HandleObs]

MCInit == /\ Init
          /\ steps = 0
          /\ hist = CASE Emit = "edges" -> <<out.op>>
                      [] Emit = "sim" -> <<[op |-> out.op, obs |-> Obs]>>
                      [] OTHER -> <<>>

CanHold == HeldCount < MaxHeld

Op ==
    \/ /\ "insert" \in OpSet /\ Len(recs) < MaxIns
       /\ \E k \in Keys, w \in Weights, h \in Hints, ph \in Phantoms, hold \in BOOLEAN :
             /\ (hold => CanHold)
             /\ Insert(k, w, h, ph, hold)
    \/ /\ "get" \in OpSet
       /\ \E k \in Keys, hold \in BOOLEAN : (hold => CanHold) /\ Get(k, hold)
    \/ /\ "touch" \in OpSet /\ \E k \in Keys : Touch(k)
    \/ /\ "contains" \in OpSet /\ \E k \in Keys : Contains(k)
    \/ /\ "clone" \in OpSet /\ CanHold /\ \E r \in Held : CloneHandle(r)
    \/ /\ "drop" \in OpSet /\ \E r \in Held : DropH(r)
    \/ /\ "remove" \in OpSet
       /\ \E k \in Keys, hold \in BOOLEAN : (hold => CanHold) /\ Remove(k, hold)
    \/ /\ "clear" \in OpSet /\ Clear
    \/ /\ "resize" \in OpSet /\ \E c \in Caps : Resize(c)
    \/ /\ "evict_all" \in OpSet /\ EvictAll
    \/ /\ "flush" \in OpSet /\ Flush
    \/ /\ "drop_cache" \in OpSet /\ DropCache

MCNext ==
    /\ steps < MaxSteps
    /\ Op
    /\ steps' = steps + 1
    /\ CASE Emit = "edges" ->
              /\ hist' = Append(hist, out'.op)
              /\ PrintT(ToJson([ops |-> hist', obs |-> Obs']))
         [] Emit = "sim" ->
              /\ hist' = Append(hist, [op |-> out'.op, obs |-> Obs'])
              /\ (steps' = MaxSteps => PrintT(ToJson([steps |-> hist'])))
         [] OTHER -> hist' = hist

MCSpec == MCInit /\ [][MCNext]_mcvars

MCView == <<recs, refs, idx, ev, cap, usage, entries, leaves, piped, alive, steps>>

\* reachability witnesses (must be violated = reachable); used as a vacuity guard
W_EvictedSomething == ~(\E i \in 1 .. Len(out.events) : out.events[i][1] = "evict")
W_OverCapacityPinned == \A s \in ShardSet : usage[s] <= cap[s]
W_ReplaceHeld == ~(\E i \in 1 .. Len(out.events) : out.events[i][1] = "replace" /\ refs[out.events[i][2]] > 0)
===============================================================================
