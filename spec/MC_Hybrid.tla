------------------------------ MODULE MC_Hybrid ------------------------------
(* Bounded instance of Hybrid for TLC: invariants (Emit = FALSE) and edge emission (Emit = TRUE,  *)
(* VIEW MCView): one driver script per edge, replayed on the real HybridCache by                  *)
(* `harness hybrid-replay`.                                                                       *)
EXTENDS Hybrid, Json

CONSTANTS OpSet, MaxSteps, MaxIns, Emit

VARIABLES hist, steps

mcvars == <<vars, hist, steps>>

KeySeq == LET RECURSIVE Sort(_)
              Sort(X) == IF X = {} THEN <<>> ELSE LET m == CHOOSE m \in X : \A y \in X : m <= y IN <<m>> \o Sort(X \ {m})
          IN Sort(Keys)

\* what the driver observes after a step
Obs == [res |-> out.res,
        enq |-> S.enq,
        wr  |-> S.wr,
        pend |-> IF S.inio THEN 1 ELSE 0,
        mem |-> [i \in 1 .. Len(KeySeq) |-> IF InMem(S, KeySeq[i]) THEN 1 ELSE 0],
        dsk |-> [i \in 1 .. Len(KeySeq) |-> IF S.index[Hash[KeySeq[i]]].kind = "addr" THEN 1 ELSE 0]]

MCInit == Init /\ steps = 0 /\ hist = IF Emit THEN <<out.op>> ELSE <<>>

\* a delete is durable only with the tombstone log; without it a restart may bring removed or
\* superseded entries back (documented: updatable caches need the log) - no restart in that case
Removed == \E k \in Keys : S.truth[k] = 0 /\ \E e \in S.disk : e.k = k
ReopenOK == FlushOnClose /\ (TombLog \/ ~Removed)

Op ==
    \/ "ins" \in OpSet /\ S.nv < MaxIns /\ \E k \in Keys : Insert(k)
    \/ "ins_nt" \in OpSet /\ S.nv < MaxIns /\ \E k \in Keys : InsertNoTurn(k)
    \/ "ins_h" \in OpSet /\ S.nv < MaxIns /\ \E k \in Keys : KeyLoc[k] = "ondisk" /\ InsertHold(k)
    \/ "ins_h" \in OpSet /\ S.heldph # <<>> /\ DropHeld
    \/ "ins_big" \in OpSet /\ S.nv < MaxIns /\ \E k \in Keys : KeyLoc[k] = "default" /\ InsertBig(k)
    \/ "rem" \in OpSet /\ \E k \in Keys : Remove(k)
    \/ "get" \in OpSet /\ \E k \in Keys : Get(k)
    \/ "get_start" \in OpSet /\ ((\E k \in Keys : GetStart(k)) \/ GetFinish)
    \/ "sload" \in OpSet /\ \E k \in Keys : SLoad(k)
    \/ "fetch" \in OpSet /\ S.nv < MaxIns /\ \E k \in Keys : Fetch(k)
    \/ "probation" \in OpSet /\ MarkProbation
    \/ "clear" \in OpSet /\ Clear
    \/ "evict_all" \in OpSet /\ EvictAll
    \/ "evict_all_nt" \in OpSet /\ EvictAllNoTurn
    \/ "hold" \in OpSet /\ (Hold \/ Unhold)
    \/ "gate" \in OpSet /\ (GateOn \/ GateOff \/ GateStep)
    \/ "close" \in OpSet /\ Close
    \/ "close" \in OpSet /\ CloseGated
    \/ "close" \in OpSet /\ ReopenOK /\ Reopen

MCNext ==
    /\ steps < MaxSteps /\ ~S.stuck
    /\ Op
    /\ steps' = steps + 1
    /\ IF Emit
       THEN /\ hist' = Append(hist, out'.op)
            /\ PrintT(ToJson([ops |-> hist', obs |-> Obs']))
       ELSE hist' = hist

MCSpec == MCInit /\ [][MCNext]_mcvars
MCView == <<S, steps>>
===============================================================================
