-------------------------------- MODULE Reclaim --------------------------------
(***************************************************************************)
(* C09: the block manager (engine/block/manager.rs), the flushers' use of  *)
(* blocks (flusher.rs) and the reclaimer (reclaimer.rs) as a protocol over *)
(* whole blocks.                                                           *)
(*                                                                         *)
(* A block is clean (in the clean queue), writing (held by a flusher or    *)
(* handed to a waiting flusher), evictable (fully written), or reclaiming. *)
(* A flusher writes entries into its current block; when it is full it     *)
(* finishes it (-> evictable) and asks for a clean one: popped from the    *)
(* queue under the state lock, or the flusher registers as a waiter.       *)
(* Whenever the clean queue is below the threshold and fewer than          *)
(* Reclaimers reclaims run, the picker chooses the oldest-filled evictable *)
(* block; its reclaimer re-submits the entries the reinsertion filter      *)
(* admits (original sequence), removes the index entries of the others     *)
(* (only if the index still holds that sequence or an older one), zeroes   *)
(* the first page and releases the block: to a waiter if there is one,     *)
(* else to the clean queue.  The index maps a key to <<block, generation,  *)
(* seq>>; gen[b] counts how often b was cleaned, so an index entry whose   *)
(* generation is not the block's current one points at overwritten bytes   *)
(* and loads as a miss (checksum / key comparison), never as a value.      *)
(***************************************************************************)
EXTENDS Naturals, Sequences, FiniteSets, TLC

CONSTANTS Blocks, Flushers, Reclaimers, Threshold, Keys, BlockCap, Reinsert, MaxWrites

VARIABLES
    clean,      \* Seq(block)   clean queue
    state,      \* [Blocks -> "clean" | "writing" | "evictable" | "reclaiming"]
    cur,        \* [Flushers -> block or NoBlock]    block the flusher currently writes
    fill,       \* [Blocks -> Seq(<<key, seq>>)]     entries written into the block since it was last cleaned
    waiters,    \* Seq(flusher)  flushers waiting for a clean block
    fifo,       \* Seq(block)    evictable blocks, oldest-filled first (FifoPicker)
    rcl,        \* [Blocks -> "none" | "scan" | "clean"]  progress of the reclaim of a block
    resub,      \* Seq(<<key, seq>>)  re-insertions submitted and not yet written
    index,      \* [Keys -> <<block, gen, seq>> or None]
    gen,        \* [Blocks -> Nat]
    seq,        \* next sequence
    order,      \* Seq(block)  blocks in the order they were reclaimed
    filled      \* Seq(block)  blocks in the order they became evictable

vars == <<clean, state, cur, fill, waiters, fifo, rcl, resub, index, gen, seq, order, filled>>

NoBlock == 99
None == <<NoBlock, 0, 0>>
Range(s) == {s[i] : i \in DOMAIN s}

Init ==
    /\ clean = [i \in 1 .. Cardinality(Blocks) |-> i - 1]     \* blocks are 0..n-1
    /\ state = [b \in Blocks |-> "clean"]
    /\ cur = [f \in Flushers |-> NoBlock]
    /\ fill = [b \in Blocks |-> <<>>]
    /\ waiters = <<>> /\ fifo = <<>> /\ rcl = [b \in Blocks |-> "none"] /\ resub = <<>>
    /\ index = [k \in Keys |-> None]
    /\ gen = [b \in Blocks |-> 0] /\ seq = 1 /\ order = <<>> /\ filled = <<>>

Reclaiming == {b \in Blocks : state[b] = "reclaiming"}

\* reclaim_if_needed, under the state lock: returns the new <<state, fifo, rcl>>
StartReclaim(st, ff, rc, cl) ==
    IF Len(cl) < Threshold /\ Cardinality({b \in Blocks : st[b] = "reclaiming"}) < Reclaimers /\ ff # <<>>
    THEN <<[st EXCEPT ![Head(ff)] = "reclaiming"], Tail(ff), [rc EXCEPT ![Head(ff)] = "scan"]>>
    ELSE <<st, ff, rc>>

\* a flusher without a block asks for one
GetBlock(f) ==
    /\ cur[f] = NoBlock /\ f \notin Range(waiters)
    /\ IF clean # <<>>
       THEN LET b == Head(clean)
                st1 == [state EXCEPT ![b] = "writing"]
                r == StartReclaim(st1, fifo, rcl, Tail(clean)) IN
            /\ cur' = [cur EXCEPT ![f] = b] /\ clean' = Tail(clean)
            /\ state' = r[1] /\ fifo' = r[2] /\ rcl' = r[3]
            /\ UNCHANGED waiters
       ELSE /\ waiters' = Append(waiters, f)
            /\ UNCHANGED <<cur, clean, state, fifo, rcl>>
    /\ UNCHANGED <<fill, resub, index, gen, seq, order, filled>>

\* the flusher writes one entry (a new version of k, or a pending re-insertion) into its block
WriteEntry(f) ==
    /\ cur[f] # NoBlock /\ Len(fill[cur[f]]) < BlockCap /\ seq <= MaxWrites
    /\ \/ \E k \in Keys :
            /\ fill' = [fill EXCEPT ![cur[f]] = Append(@, <<k, seq>>)]
            /\ index' = [index EXCEPT ![k] = <<cur[f], gen[cur[f]], seq>>]      \* highest sequence wins
            /\ seq' = seq + 1 /\ UNCHANGED resub
       \/ /\ resub # <<>>
          /\ LET e == Head(resub) IN
             /\ resub' = Tail(resub)
             /\ IF index[e[1]] = None      \* skipped if the key is no longer indexed
                THEN UNCHANGED <<fill, index>>
                ELSE /\ fill' = [fill EXCEPT ![cur[f]] = Append(@, e)]
                     /\ index' = IF e[2] >= index[e[1]][3]
                                 THEN [index EXCEPT ![e[1]] = <<cur[f], gen[cur[f]], e[2]>>] ELSE index
          /\ UNCHANGED seq
    /\ UNCHANGED <<clean, state, cur, waiters, fifo, rcl, gen, order, filled>>

\* the block is full: on_writing_finish
FinishBlock(f) ==
    /\ cur[f] # NoBlock /\ Len(fill[cur[f]]) = BlockCap
    /\ LET b == cur[f]
           st1 == [state EXCEPT ![b] = "evictable"]
           r == StartReclaim(st1, Append(fifo, b), rcl, clean) IN
       /\ state' = r[1] /\ fifo' = r[2] /\ rcl' = r[3]
       /\ filled' = Append(filled, b)
    /\ cur' = [cur EXCEPT ![f] = NoBlock]
    /\ UNCHANGED <<clean, fill, waiters, resub, index, gen, seq, order>>

\* reclaimer: scan the block, re-submit the admitted entries, remove the index entries of the others
ReclaimScan(b) ==
    /\ rcl[b] = "scan"
    /\ LET es == fill[b]
           picked == SelectSeq(es, LAMBDA e : e[1] \in Reinsert)
           unpicked == SelectSeq(es, LAMBDA e : e[1] \notin Reinsert) IN
       /\ resub' = resub \o picked
       /\ index' = [k \in Keys |->
                       IF index[k] # None /\ \E i \in DOMAIN unpicked : unpicked[i][1] = k /\ unpicked[i][2] >= index[k][3]
                       THEN None ELSE index[k]]
    /\ rcl' = [rcl EXCEPT ![b] = "clean"]
    /\ UNCHANGED <<clean, state, cur, fill, waiters, fifo, gen, seq, order, filled>>

\* first page zeroed, block released (on_reclaim_finish): to the newest waiter, else to the clean queue
ReclaimFinish(b) ==
    /\ rcl[b] = "clean"
    /\ gen' = [gen EXCEPT ![b] = @ + 1]
    /\ fill' = [fill EXCEPT ![b] = <<>>]
    /\ order' = Append(order, b)
    /\ IF waiters # <<>>
       THEN LET f == waiters[Len(waiters)] IN
            /\ cur' = [cur EXCEPT ![f] = b]
            /\ waiters' = SubSeq(waiters, 1, Len(waiters) - 1)
            /\ LET st1 == [state EXCEPT ![b] = "writing"]
                   r == StartReclaim(st1, fifo, [rcl EXCEPT ![b] = "none"], clean) IN
               state' = r[1] /\ fifo' = r[2] /\ rcl' = r[3]
            /\ UNCHANGED clean
       ELSE /\ clean' = Append(clean, b)
            /\ LET st1 == [state EXCEPT ![b] = "clean"]
                   r == StartReclaim(st1, fifo, [rcl EXCEPT ![b] = "none"], Append(clean, b)) IN
               state' = r[1] /\ fifo' = r[2] /\ rcl' = r[3]
            /\ UNCHANGED <<cur, waiters>>
    /\ UNCHANGED <<resub, index, seq, filled>>

Next ==
    \/ \E f \in Flushers : GetBlock(f) \/ WriteEntry(f) \/ FinishBlock(f)
    \/ \E b \in Blocks : ReclaimScan(b) \/ ReclaimFinish(b)

Spec == Init /\ [][Next]_vars
FairSpec == Spec /\ \A f \in Flushers : WF_vars(GetBlock(f)) /\ WF_vars(FinishBlock(f))
                 /\ \A b \in Blocks : WF_vars(ReclaimScan(b)) /\ WF_vars(ReclaimFinish(b))

-------------------------------------------------------------------------------
OneWriterPerBlock == \A f1, f2 \in Flushers : (f1 # f2 /\ cur[f1] # NoBlock) => cur[f1] # cur[f2]
WritersHoldWritingBlocks == \A f \in Flushers : cur[f] # NoBlock => state[cur[f]] = "writing"
NoReclaimWhileWriting == \A b \in Blocks : rcl[b] # "none" => (state[b] = "reclaiming" /\ \A f \in Flushers : cur[f] # b)
CleanQueueIsClean == \A i \in DOMAIN clean : state[clean[i]] = "clean" /\ fill[clean[i]] = <<>>
\* what a load through the index yields: the indexed version if the block still holds it, else a miss
Load(k) == IF index[k] = None THEN 0
           ELSE LET b == index[k][1] IN
                IF index[k][2] = gen[b] /\ \E i \in DOMAIN fill[b] : fill[b][i] = <<k, index[k][3]>>
                THEN index[k][3] ELSE 0
\* the index never points into a block that was cleaned since (no rewrite while it still backs indexed entries)
IndexedEntriesAreBacked ==
    \A k \in Keys : index[k] # None =>
        \/ Load(k) = index[k][3]
        \/ rcl[index[k][1]] = "clean" /\ k \in Reinsert          \* re-submitted, its old block not yet released
        \/ \E i \in DOMAIN resub : resub[i][1] = k               \* ... or released while the re-insertion is queued
\* with one flusher and the default pickers blocks are reclaimed oldest-filled first
FifoReclaimOrder == Cardinality(Flushers) = 1 =>
                        (Len(order) <= Len(filled) /\ \A i \in DOMAIN order : order[i] = filled[i])
Inv == OneWriterPerBlock /\ WritersHoldWritingBlocks /\ NoReclaimWhileWriting /\ CleanQueueIsClean
       /\ IndexedEntriesAreBacked /\ FifoReclaimOrder

\* progress: a flusher that waits for a block eventually gets one (under fairness)
EveryWaiterServed == \A f \in Flushers : (f \in Range(waiters)) ~> (cur[f] # NoBlock)
===============================================================================
