----------------------------- MODULE Trace_Hybrid -----------------------------
(***************************************************************************)
(* Trace validation for the hybrid cache (C01, C12, C15, C17 disk part).   *)
(*                                                                         *)
(* `harness hybrid-replay` logs one line per driver operation:             *)
(*    {"op": {"a": ...}, "obs": {res, enq, wr, mem, dsk}}                  *)
(* The specification's state after a line is a function of the lines so    *)
(* far (the driver operations are deterministic); the logged observation   *)
(* is judged against it, component by component, and only what a listed    *)
(* property states is tagged with that property:                           *)
(*   res  a lookup result that is neither a miss nor the current truth of  *)
(*        the key: C17 if it is another key's value, else C01 (stale /     *)
(*        removed value).  A miss where the specification expects a value  *)
(*        is allowed (drift) - except for a key untouched since a flushing *)
(*        close + reopen, which C15 says is retrievable.                   *)
(*   enq  the entries offered to the disk tier during the call (admission  *)
(*        filter calls) - the policy decision C12 is about.                *)
(*   wr   bytes of an in-memory-only entry reaching the device: C12; the   *)
(*        versions written during a step with no flush/gate window open:   *)
(*        C12; when the flusher writes inside a window: mechanism (drift). *)
(*   mem  an on-disk-advised entry resident right after its insert: C12;   *)
(*        else drift.                                                      *)
(* After the first difference the rest of the run is not judged.           *)
(***************************************************************************)
EXTENDS Hybrid, Json, IOUtils, TLCExt

VARIABLES l, bad, dead, seenwr      \* seenwr: versions observed on the device so far in this run

tvars == <<vars, l, bad, dead, seenwr>>

Rec == ndJsonDeserialize(IOEnv.TRACE)

KeySeq == LET RECURSIVE Sort(_)
              Sort(X) == IF X = {} THEN <<>> ELSE LET m == CHOOSE m \in X : \A y \in X : m <= y IN <<m>> \o Sort(X \ {m})
          IN Sort(Keys)

Skip(op) == S' = Begin(S) /\ out' = [op |-> op, res |-> 0]

Apply(op) ==
    CASE op.a = "init" -> S' = S0 /\ out' = [op |-> op, res |-> 0]
      [] op.a = "ins" -> IF S.active THEN Insert(op.k) ELSE Skip(op)
      [] op.a = "ins_nt" -> IF S.active THEN InsertNoTurn(op.k) ELSE Skip(op)
      [] op.a = "ins_h" -> IF S.active THEN InsertHold(op.k) ELSE Skip(op)
      [] op.a = "drop_h" -> DropHeld
      [] op.a = "ins_big" -> IF S.active THEN InsertBig(op.k) ELSE Skip(op)
      [] op.a = "rem" -> IF S.active THEN Remove(op.k) ELSE Skip(op)
      [] op.a = "get" -> IF S.active /\ S.pget.k = 0 THEN Get(op.k) ELSE Skip(op)
      [] op.a = "get_start" -> IF S.active /\ S.pget.k = 0 /\ ~S.gate /\ ~S.hold /\ ~InMem(S, op.k) /\ S.keeper[op.k] = 0
                                  /\ S.index[Hash[op.k]].kind = "addr" /\ S.index[Hash[op.k]].k = op.k
                               THEN GetStart(op.k) ELSE Skip(op)
      [] op.a = "get_finish" -> IF S.active /\ S.pget.k # 0 THEN GetFinish ELSE Skip(op)
      [] op.a = "sload" -> IF S.active /\ S.pget.k = 0 THEN SLoad(op.k) ELSE Skip(op)
      [] op.a = "fetch" -> IF S.active /\ S.pget.k = 0 THEN Fetch(op.k) ELSE Skip(op)
      [] op.a = "probation" -> IF S.active /\ ~S.prob THEN MarkProbation ELSE Skip(op)
      [] op.a = "clear" -> IF S.active /\ ~S.hold /\ ~S.gate /\ S.pget.k = 0 THEN Clear ELSE Skip(op)
      [] op.a = "evict_all" -> IF S.active THEN EvictAll ELSE Skip(op)
      [] op.a = "evict_all_nt" -> IF S.active THEN EvictAllNoTurn ELSE Skip(op)
      [] op.a = "hold" -> IF S.active /\ ~S.hold THEN Hold ELSE Skip(op)
      [] op.a = "unhold" -> IF S.hold THEN Unhold ELSE Skip(op)
      [] op.a = "gate_on" -> IF S.active /\ ~S.gate /\ S.pget.k = 0 THEN GateOn ELSE Skip(op)
      [] op.a = "gate_off" -> IF S.gate THEN GateOff ELSE Skip(op)
      [] op.a = "gate_step" -> IF S.gate /\ S.inio /\ S.hold THEN GateStep ELSE Skip(op)
      [] op.a = "close" -> IF S.active /\ ~S.hold /\ ~S.gate /\ S.heldph = <<>> /\ S.pget.k = 0 THEN Close
                           ELSE IF S.active /\ S.gate /\ ~S.hold /\ S.inio /\ S.heldph = <<>> THEN CloseGated
                           ELSE Skip(op)
      [] op.a = "reopen" -> IF ~S.active THEN Reopen ELSE Skip(op)

Count(s, x) == Cardinality({i \in DOMAIN s : s[i] = x})
SameBag(s, t) == Len(s) = Len(t) /\ \A i \in DOMAIN s : Count(s, s[i]) = Count(t, s[i])

\* T = the specification's next state, exp = its expected result
Bad(op, o, T, exp) ==
    LET isLookup == op.a \in {"get", "fetch", "sload"} \/ (op.a = "get_finish" /\ S.pget.k # 0)
        r == o.res
        k == IF op.a = "get_finish" THEN S.pget.k ELSE IF isLookup THEN op.k ELSE 0
        known(v) == v \in 1 .. Len(T.vkey)
        resTags ==
            IF ~isLookup THEN {}
            \* a lookup that overlapped other operations on its key may be answered with any version that was current
            \* at some moment of the window (the indexed one at its start, any one inserted since) or with a miss
            ELSE IF op.a = "get_finish"
                 THEN IF r = exp THEN {}
                      ELSE IF r < 0 THEN {<<"tool", "lookup_failed_or_incomplete">>}
                      ELSE IF r = 0 \/ r \in S.pget.vs THEN {<<"drift", "overlapping_lookup">>}
                      ELSE IF r >= 1000000 \/ (known(r) /\ T.vkey[r] # k) THEN {<<"C17", "foreign_value">>}
                      ELSE {<<"C01", "stale_or_removed_value">>}
            \* finding F12 (open): judged on the truth of the key, also when the specification - which models
            \* what the code does - expects exactly this answer
            ELSE IF k \in T.late /\ r # 0 /\ r < 1000000 /\ r # T.truth[k]
                 THEN {<<"C01", "older_version_republished_by_late_drop_of_diskonly_handle">>}
            \* finding F16 (open): a value removed while the disk read of a lookup was in flight is back in memory
            ELSE IF k \in T.lateread /\ r # 0 /\ r < 1000000 /\ r # T.truth[k]
                 THEN {<<"C01", "removed_value_installed_by_late_disk_read">>}
            \* finding F13 (open): a cleared entry is back after clear + further writes + restart
            ELSE IF k \in T.revived /\ r # 0 /\ r < 1000000 /\ r # T.truth[k]
                 THEN {<<"C01", "cleared_entry_back_after_restart">>}
            ELSE IF r = exp THEN {}
            ELSE IF r < 0 THEN {<<"tool", "lookup_failed_or_incomplete">>}
            ELSE IF r >= 1000000 \/ (known(r) /\ T.vkey[r] # k) THEN {<<"C17", "foreign_value">>}
            ELSE IF op.a = "sload" THEN {<<"drift", "store_load">>}
            ELSE IF k \in T.shed THEN {<<"drift", "shed_write">>}     \* a write of k was shed (buffer full): outside C01 / C15
            ELSE IF r # 0 /\ r # T.truth[k]
                 THEN {<<"C01", "stale_or_removed_value">>}
                      \cup (IF k \notin T.touched /\ T.touched # Keys /\ FlushOnClose /\ T.truth[k] # 0
                            THEN {<<"C15", "older_value_after_close">>} ELSE {})
            ELSE IF r = 0 /\ exp # 0 /\ k \notin T.touched /\ T.touched # Keys /\ FlushOnClose
                    /\ KeyLoc[k] # "inmem" /\ ~Collides(k) /\ Hash[k] \notin Reject THEN {<<"C15", "not_persisted_by_close">>}
            ELSE {<<"drift", "lookup">>}
        enqTags == IF SameBag(o.enq, T.enq) THEN {} ELSE {<<"C12", "disk_offers">>}
        \* a lookup of a disk-only key that hits offers nothing to the disk tier (nothing is populated, so
        \* nothing can be evicted by it): judged on the observation alone
        hitTags == IF op.a = "get" /\ r # 0 /\ r < 1000000 /\ KeyLoc[k] = "ondisk" /\ o.enq # <<>>
                   THEN {<<"C12", "hit_reoffered_to_disk">>} ELSE {}
        wrTags ==
            IF \E i \in DOMAIN o.wr : known(o.wr[i]) /\ KeyLoc[T.vkey[o.wr[i]]] = "inmem"
            THEN {<<"C12", "inmem_entry_on_device">>}
            ELSE IF \E i \in DOMAIN o.wr : known(o.wr[i]) /\ Hash[T.vkey[o.wr[i]]] \in Reject
            THEN {<<"C12", "rejected_entry_on_device">>}
            \* with neither the flush switch nor the device gate engaged everything submitted is written within
            \* the step, so which versions reach the device is the policy's decision (e.g. an entry loaded from
            \* disk is not rewritten on eviction); with a window open, when they are written is mechanism
            ELSE IF SameBag(o.wr, T.wr) THEN {}
            ELSE IF ~T.hold /\ ~T.gate /\ ~S.hold /\ ~S.gate THEN {<<"C12", "device_writes">>}
            ELSE {<<"drift", "device_writes">>}
        \* C15: what must be on the device when close() returns: every version the specification writes during the
        \* close (the queued evictions, then the resident set) that is the latest of its key - written now or
        \* seen written earlier (when exactly the flusher ran relative to a lookup is scheduling)
        closeTags ==
            IF op.a = "close" /\ FlushOnClose
               /\ \E i \in DOMAIN T.wr : /\ \A j \in DOMAIN o.wr : o.wr[j] # T.wr[i]
                                         /\ T.wr[i] \notin seenwr       \* (already durable: nothing to write)
                                         /\ LET kk == T.vkey[T.wr[i]] IN
                                            T.truth[kk] = T.wr[i] /\ kk \notin T.shed /\ ~Collides(kk) /\ Hash[kk] \notin Reject
            THEN {<<"C15", "latest_version_not_written_by_close">>} ELSE {}
        \* close() returns only after the device writes in flight have completed (judged on the observation alone)
        pendTags ==
            (IF op.a = "close" /\ o.res = 0 /\ o.pend > 0
             THEN {<<"C15", "close_returned_while_device_writes_pending">>} ELSE {})
            \cup (IF o.pend # (IF T.inio THEN 1 ELSE 0) THEN {<<"drift", "pending_writes">>} ELSE {})
        memExp == [i \in 1 .. Len(KeySeq) |-> IF InMem(T, KeySeq[i]) THEN 1 ELSE 0]
        memTags ==
            \* the advice governs the insert (a later lookup may populate memory from disk)
            IF op.a \in {"ins", "ins_nt", "ins_h", "ins_big"} /\ KeyLoc[op.k] = "ondisk" /\ \E i \in 1 .. Len(KeySeq) : KeySeq[i] = op.k /\ o.mem[i] = 1
            THEN {<<"C12", "ondisk_entry_retained_in_memory">>}
            ELSE IF o.mem = memExp THEN {} ELSE {<<"drift", "residency">>}
        dskExp == [i \in 1 .. Len(KeySeq) |-> IF T.index[Hash[KeySeq[i]]].kind = "addr" THEN 1 ELSE 0]
        dskTags == IF o.dsk = dskExp THEN {} ELSE {<<"drift", "disk_index">>}
    IN resTags \cup enqTags \cup hitTags \cup wrTags \cup closeTags \cup pendTags \cup memTags \cup dskTags

Robust == {"stale_or_removed_value", "foreign_value", "older_value_after_close", "hit_reoffered_to_disk",
           "inmem_entry_on_device", "rejected_entry_on_device", "ondisk_entry_retained_in_memory",
           "close_returned_while_device_writes_pending"}

TraceInit == S = S0 /\ out = [op |-> [a |-> "none"], res |-> 0] /\ l = 1 /\ bad = {} /\ dead = FALSE /\ seenwr = {}

TraceNext ==
    /\ l <= Len(Rec)
    /\ Apply(Rec[l].op)
    /\ LET b == Bad(Rec[l].op, Rec[l].obs, S', out'.res)
           isInit == Rec[l].op.a = "init" IN
       \* after a difference the specification's state may no longer describe the implementation: only the
       \* tags that rest on the logged operations alone (the truth of a key, its advice) are still judged
       \* (with a small flush buffer a write may be shed, which the specification can only tell while in step)
       /\ bad' = IF isInit THEN {} ELSE IF dead THEN {x \in b : x[2] \in Robust /\ (BufCap >= 64 \/ x[1] = "C17" \/ x[2] = "close_returned_while_device_writes_pending")} ELSE b
       /\ dead' = IF isInit THEN FALSE ELSE (dead \/ b # {})
       /\ seenwr' = (IF isInit THEN {} ELSE seenwr) \cup {Rec[l].obs.wr[i] : i \in DOMAIN Rec[l].obs.wr}
    /\ l' = l + 1

TraceSpec == TraceInit /\ [][TraceNext]_tvars

NoViolation(P) == \A b \in bad : b[1] # P
NoViolation_C01 == NoViolation("C01")
NoViolation_C12 == NoViolation("C12")
NoViolation_C15 == NoViolation("C15")
NoViolation_C17 == NoViolation("C17")
NoToolError == NoViolation("tool")
NoDrift == bad = {}
TraceInv == (~dead /\ bad = {} /\ out.op.a # "none") => Inv

Consumed ==
    /\ PrintT(<<"CONSUMED", TLCGet("stats").diameter - 1, Len(Rec)>>)
    /\ TRUE
===============================================================================
