------------------------------- MODULE MemCache -------------------------------
(***************************************************************************)
(* The in-memory tier of foyer (foyer-memory/src/raw.rs) as a sequential   *)
(* state machine: one action per public call, each call being the critical *)
(* section(s) of raw.rs followed by the listener / pipe work done after    *)
(* the shard lock is released.                                             *)
(*                                                                         *)
(* Records are numbered 1,2,3,... in insertion order; the record id is     *)
(* also the *version token* of the value (the harness stores the id in the *)
(* value), so "older version", "other key's value" are distinguishable.    *)
(*                                                                         *)
(* Algo selects the eviction container:                                    *)
(*   "fifo" "lru" "lfu" "s3fifo" "sieve"  - the documented algorithms      *)
(*   "abs"  - any evictable record may be the victim (the abstraction all  *)
(*            five refine; used to judge C05/C13/C17/C18 on traces whose   *)
(*            victims are taken from the log)                              *)
(***************************************************************************)
EXTENDS Naturals, Sequences, FiniteSets, TLC

CONSTANTS
    Keys,       \* set of keys (naturals)
    Hash,       \* [Keys -> Nat]; not necessarily injective (C17)
    Shards,     \* number of shards >= 1
    Algo,       \* see above
    Cfg         \* [hiNum,hiDen, wNum,wDen, pNum,pDen, sNum,sDen, gNum,gDen, thr, decay, pins, initCaps]

VARIABLES
    recs,       \* Seq([key, w, hint, ph])       immutable attributes of record i
    refs,       \* Seq(Nat)                      live external handles of record i
    idx,        \* [Keys -> Nat]                 0 = absent, else record id
    ev,         \* [0..Shards-1 -> container]    eviction container per shard
    cap,        \* [0..Shards-1 -> Nat]
    usage,      \* [0..Shards-1 -> Nat]
    entries,    \* [0..Shards-1 -> Nat]
    leaves,     \* Seq(Seq(reason))              leave notifications per record
    piped,      \* Seq(Nat)                      pipe offers per record
    alive,      \* BOOLEAN                       cache object not yet dropped
    out         \* observation of the last step [op, res, events, piped]

vars == <<recs, refs, idx, ev, cap, usage, entries, leaves, piped, alive, out>>

ShardSet == 0 .. (Shards - 1)
ShardOf(k) == Hash[k] % Shards
NoRec == 0

Max(a, b) == IF a > b THEN a ELSE b
Min(a, b) == IF a < b THEN a ELSE b
Monus(a, b) == IF a > b THEN a - b ELSE 0

Range(s) == {s[i] : i \in DOMAIN s}
Without(s, x) == SelectSeq(s, LAMBDA y : y # x)
IndexOf(s, x) == CHOOSE i \in DOMAIN s : s[i] = x

RECURSIVE SumW(_, _)
SumW(rs, s) == IF s = <<>> THEN 0 ELSE rs[Head(s)].w + SumW(rs, Tail(s))

RECURSIVE Ext(_, _, _)
Ext(s, n, d) == IF Len(s) >= n THEN s ELSE Ext(Append(s, d), n, d)

HashOfRec(rs, r) == Hash[rs[r].key]

-------------------------------------------------------------------------------
(* FIFO: one queue, pop front.                                               *)

FifoNew(c) == [q |-> <<>>]
FifoPush(e, rs, r) == [e EXCEPT !.q = Append(@, r)]
FifoPop(e, rs) == IF e.q = <<>> THEN [r |-> NoRec, ev |-> e]
                  ELSE [r |-> Head(e.q), ev |-> [e EXCEPT !.q = Tail(@)]]
FifoRemove(e, rs, r) == [e EXCEPT !.q = Without(@, r)]
FifoIn(e, r) == r \in Range(e.q)

-------------------------------------------------------------------------------
(* LRU with a high-priority pool and a pin list.                             *)
(* high/low: LRU order, front = next victim.  pin: looked-up and held.       *)
(* weight(high) counts unpinned high-priority records only.                  *)

LruDerive(c) == (c * Cfg.hiNum) \div Cfg.hiDen

RECURSIVE LruOverflow(_, _)
LruOverflow(e, rs) ==
    IF SumW(rs, e.high) > e.hpcap
    THEN LET r == Head(e.high) IN
         LruOverflow([e EXCEPT !.high = Tail(@), !.low = Append(@, r),
                               !.inHigh = @ \ {r}], rs)
    ELSE e

LruNew(c) == [high |-> <<>>, low |-> <<>>, pin |-> <<>>, inHigh |-> {},
              pinned |-> {}, hpcap |-> LruDerive(c)]
LruPush(e, rs, r) ==
    IF rs[r].hint = "normal"
    THEN LruOverflow([e EXCEPT !.high = Append(@, r), !.inHigh = @ \cup {r}], rs)
    ELSE [e EXCEPT !.low = Append(@, r)]
LruPop(e, rs) ==
    IF e.low # <<>> THEN [r |-> Head(e.low), ev |-> [e EXCEPT !.low = Tail(@)]]
    ELSE IF e.high # <<>>
         THEN [r |-> Head(e.high),
               ev |-> [e EXCEPT !.high = Tail(@), !.inHigh = @ \ {Head(e.high)}]]
         ELSE [r |-> NoRec, ev |-> e]
LruRemove(e, rs, r) ==
    [e EXCEPT !.high = Without(@, r), !.low = Without(@, r), !.pin = Without(@, r),
              !.inHigh = @ \ {r}, !.pinned = @ \ {r}]
LruIn(e, r) == r \in Range(e.high) \cup Range(e.low) \cup Range(e.pin)
LruAcquire(e, rs, r) ==
    IF ~LruIn(e, r) \/ r \in e.pinned THEN e
    ELSE [e EXCEPT !.high = Without(@, r), !.low = Without(@, r),
                   !.pin = Append(@, r), !.pinned = @ \cup {r}]
LruRelease(e, rs, r) ==
    IF ~LruIn(e, r) \/ r \notin e.pinned THEN e
    ELSE LET e1 == [e EXCEPT !.pin = Without(@, r), !.pinned = @ \ {r}] IN
         IF r \in e.inHigh
         THEN LruOverflow([e1 EXCEPT !.high = Append(@, r)], rs)
         ELSE [e1 EXCEPT !.low = Append(@, r)]
LruUpdate(e, rs, c) == LruOverflow([e EXCEPT !.hpcap = LruDerive(c)], rs)
LruClear(e) == [e EXCEPT !.high = <<>>, !.low = <<>>, !.pin = <<>>, !.inHigh = {},
                         !.pinned = {}]

-------------------------------------------------------------------------------
(* w-TinyLFU: window -> probation <-> protected; the count-min sketch is      *)
(* modelled by exact per-hash counters (halved every Cfg.decay updates,      *)
(* Cfg.decay = 0: never).                                                    *)

LfuWcap(c) == (c * Cfg.wNum) \div Cfg.wDen
LfuPcap(c) == (c * Cfg.pNum) \div Cfg.pDen
HashVals == {Hash[k] : k \in Keys}

LfuNew(c) == [win |-> <<>>, prob |-> <<>>, prot |-> <<>>,
              freq |-> [h \in HashVals |-> 0], step |-> 0,
              wcap |-> LfuWcap(c), pcap |-> LfuPcap(c)]
LfuCount(e, h) ==
    LET f1 == [e.freq EXCEPT ![h] = @ + 1]
        s1 == e.step + 1 IN
    IF Cfg.decay = 0 THEN [e EXCEPT !.freq = f1]
    ELSE IF s1 >= Cfg.decay
         THEN [e EXCEPT !.freq = [x \in HashVals |-> f1[x] \div 2], !.step = s1 \div 2]
         ELSE [e EXCEPT !.freq = f1, !.step = s1]

RECURSIVE LfuWinOverflow(_, _)
LfuWinOverflow(e, rs) ==
    IF SumW(rs, e.win) > e.wcap
    THEN LfuWinOverflow([e EXCEPT !.win = Tail(@), !.prob = Append(@, Head(e.win))], rs)
    ELSE e
RECURSIVE LfuProtOverflow(_, _)
LfuProtOverflow(e, rs) ==
    IF SumW(rs, e.prot) > e.pcap
    THEN LfuProtOverflow([e EXCEPT !.prot = Tail(@), !.prob = Append(@, Head(e.prot))], rs)
    ELSE e

LfuPush(e, rs, r) ==
    LET e1 == LfuCount(e, HashOfRec(rs, r)) IN
    LfuWinOverflow([e1 EXCEPT !.win = Append(@, r)], rs)
LfuPop(e, rs) ==
    LET fromWin  == [r |-> Head(e.win),  ev |-> [e EXCEPT !.win  = Tail(@)]]
        fromProb == [r |-> Head(e.prob), ev |-> [e EXCEPT !.prob = Tail(@)]]
        fromProt == [r |-> Head(e.prot), ev |-> [e EXCEPT !.prot = Tail(@)]] IN
    IF e.win = <<>> /\ e.prob = <<>>
    THEN IF e.prot = <<>> THEN [r |-> NoRec, ev |-> e] ELSE fromProt
    ELSE IF e.win = <<>> THEN fromProb
    ELSE IF e.prob = <<>> THEN fromWin
    ELSE IF e.freq[HashOfRec(rs, Head(e.win))] < e.freq[HashOfRec(rs, Head(e.prob))]
         THEN fromWin ELSE fromProb
LfuRemove(e, rs, r) ==
    [e EXCEPT !.win = Without(@, r), !.prob = Without(@, r), !.prot = Without(@, r)]
LfuIn(e, r) == r \in Range(e.win) \cup Range(e.prob) \cup Range(e.prot)
LfuAcquire(e, rs, r) ==
    LET e1 == LfuCount(e, HashOfRec(rs, r)) IN
    IF r \in Range(e1.win) THEN [e1 EXCEPT !.win = Append(Without(@, r), r)]
    ELSE IF r \in Range(e1.prob)
         THEN LfuProtOverflow([e1 EXCEPT !.prob = Without(@, r), !.prot = Append(@, r)], rs)
    ELSE IF r \in Range(e1.prot) THEN [e1 EXCEPT !.prot = Append(Without(@, r), r)]
    ELSE e1
LfuUpdate(e, rs, c) == [e EXCEPT !.wcap = LfuWcap(c), !.pcap = LfuPcap(c)]
LfuClear(e) == [e EXCEPT !.win = <<>>, !.prob = <<>>, !.prot = <<>>]

-------------------------------------------------------------------------------
(* S3-FIFO: small / main queues, ghost queue of (hash, weight) bounded by    *)
(* weight with a companion hash set, per-record frequency 0..3.              *)

S3Scap(c) == (c * Cfg.sNum) \div Cfg.sDen
S3Gcap(c) == (c * Cfg.gNum) \div Cfg.gDen
S3Thr == Min(Cfg.thr, 3)

RECURSIVE SumG(_)
SumG(g) == IF g = <<>> THEN 0 ELSE Head(g)[2] + SumG(Tail(g))

S3New(c) == [small |-> <<>>, main |-> <<>>, gq |-> <<>>, gs |-> {}, fr |-> <<>>,
             scap |-> S3Scap(c), gcap |-> S3Gcap(c)]
S3GhostPop(e) == IF e.gq = <<>> THEN e
                 ELSE [e EXCEPT !.gq = Tail(@), !.gs = @ \ {Head(e.gq)[1]}]
RECURSIVE S3GhostTrim(_, _)
\* pop while weight + extra > gcap and weight > 0
S3GhostTrim(e, extra) ==
    IF SumG(e.gq) + extra > e.gcap /\ SumG(e.gq) > 0
    THEN S3GhostTrim(S3GhostPop(e), extra) ELSE e
S3GhostPush(e, h, w) ==
    IF e.gcap = 0 THEN e
    ELSE LET e1 == S3GhostTrim(e, w) IN
         [e1 EXCEPT !.gq = Append(@, <<h, w>>), !.gs = @ \cup {h}]
S3Fr(e, r) == IF r <= Len(e.fr) THEN e.fr[r] ELSE 0
S3SetFr(e, r, v) == [e EXCEPT !.fr = [Ext(@, r, 0) EXCEPT ![r] = v]]

S3Push(e, rs, r) ==
    LET e1 == S3SetFr(e, r, 0) IN
    IF HashOfRec(rs, r) \in e.gs THEN [e1 EXCEPT !.main = Append(@, r)]
    ELSE [e1 EXCEPT !.small = Append(@, r)]

RECURSIVE S3EvictSmall(_, _)
S3EvictSmall(e, rs) ==
    IF e.small = <<>> THEN [r |-> NoRec, ev |-> e]
    ELSE LET r == Head(e.small) IN
         IF S3Fr(e, r) >= S3Thr
         THEN S3EvictSmall([e EXCEPT !.small = Tail(@), !.main = Append(@, r)], rs)
         ELSE [r |-> r,
               ev |-> S3GhostPush(S3SetFr([e EXCEPT !.small = Tail(@)], r, 0),
                                  HashOfRec(rs, r), rs[r].w)]
RECURSIVE S3EvictMain(_, _)
S3EvictMain(e, rs) ==
    IF e.main = <<>> THEN [r |-> NoRec, ev |-> e]
    ELSE LET r == Head(e.main) IN
         IF S3Fr(e, r) > 0
         THEN S3EvictMain(S3SetFr([e EXCEPT !.main = Append(Tail(@), r)], r, S3Fr(e, r) - 1), rs)
         ELSE [r |-> r, ev |-> [e EXCEPT !.main = Tail(@)]]
S3EvictSmallForce(e, rs) ==
    IF e.small = <<>> THEN [r |-> NoRec, ev |-> e]
    ELSE [r |-> Head(e.small), ev |-> S3SetFr([e EXCEPT !.small = Tail(@)], Head(e.small), 0)]
S3Pop(e, rs) ==
    LET a == IF SumW(rs, e.small) > e.scap THEN S3EvictSmall(e, rs)
             ELSE [r |-> NoRec, ev |-> e] IN
    IF a.r # NoRec THEN a
    ELSE LET b == S3EvictMain(a.ev, rs) IN
         IF b.r # NoRec THEN b ELSE S3EvictSmallForce(b.ev, rs)
S3Remove(e, rs, r) ==
    S3SetFr([e EXCEPT !.small = Without(@, r), !.main = Without(@, r)], r, 0)
S3In(e, r) == r \in Range(e.small) \cup Range(e.main)
S3Acquire(e, rs, r) == S3SetFr(e, r, Min(3, S3Fr(e, r) + 1))
RECURSIVE S3GhostShrink(_)
S3GhostShrink(e) ==
    IF SumG(e.gq) > e.gcap /\ SumG(e.gq) > 0 THEN S3GhostShrink(S3GhostPop(e)) ELSE e
S3Update(e, rs, c) ==
    LET e1 == [e EXCEPT !.gcap = S3Gcap(c), !.scap = S3Scap(c)] IN
    IF e1.gcap = 0 THEN e1 ELSE S3GhostShrink(e1)
RECURSIVE S3Clear(_, _)
S3Clear(e, rs) == LET p == S3Pop(e, rs) IN IF p.r = NoRec THEN p.ev ELSE S3Clear(p.ev, rs)

-------------------------------------------------------------------------------
(* SIEVE: queue (front = oldest), hand, visited bits.  Removing the record   *)
(* the hand points at resets the hand to the front (RemoveHandResets, what   *)
(* the implementation documents).                                            *)

SieveNew(c) == [q |-> <<>>, hand |-> NoRec, vis |-> {}]
SievePush(e, rs, r) == [e EXCEPT !.q = Append(@, r)]
RECURSIVE SieveScan(_, _)
\* returns [i, vis]: position of the first unvisited record from i, clearing bits
SieveScan(e, i) ==
    IF e.q[i] \notin e.vis THEN [i |-> i, vis |-> e.vis]
    ELSE SieveScan([e EXCEPT !.vis = @ \ {e.q[i]}], IF i = Len(e.q) THEN 1 ELSE i + 1)
SievePop(e, rs) ==
    IF e.q = <<>> THEN [r |-> NoRec, ev |-> e]
    ELSE LET start == IF e.hand = NoRec THEN 1 ELSE IndexOf(e.q, e.hand)
             sc == SieveScan(e, start)
             r == e.q[sc.i]
             nh == IF sc.i = Len(e.q) THEN NoRec ELSE e.q[sc.i + 1] IN
         [r |-> r, ev |-> [q |-> Without(e.q, r), hand |-> nh, vis |-> sc.vis]]
SieveRemove(e, rs, r) ==
    [e EXCEPT !.q = Without(@, r), !.hand = IF @ = r THEN NoRec ELSE @]
SieveIn(e, r) == r \in Range(e.q)
SieveAcquire(e, rs, r) == [e EXCEPT !.vis = @ \cup {r}]
RECURSIVE SieveClear(_, _)
SieveClear(e, rs) == LET p == SievePop(e, rs) IN IF p.r = NoRec THEN p.ev ELSE SieveClear(p.ev, rs)

-------------------------------------------------------------------------------
(* "abs": members + pin set; any unpinned member may be popped.  Cfg.pins    *)
(* says whether a lookup pins (true for LRU).                                *)

AbsNew(c) == [in |-> {}, pinned |-> {}]
AbsPush(e, rs, r) == [e EXCEPT !.in = @ \cup {r}]
AbsRemove(e, rs, r) == [e EXCEPT !.in = @ \ {r}, !.pinned = @ \ {r}]
AbsIn(e, r) == r \in e.in
AbsAcquire(e, rs, r) == IF Cfg.pins /\ r \in e.in THEN [e EXCEPT !.pinned = @ \cup {r}] ELSE e
AbsRelease(e, rs, r) == [e EXCEPT !.pinned = @ \ {r}]
AbsPopSet(e, rs) ==
    IF e.in \ e.pinned = {} THEN {[r |-> NoRec, ev |-> e]}
    ELSE {[r |-> x, ev |-> AbsRemove(e, rs, x)] : x \in e.in \ e.pinned}

-------------------------------------------------------------------------------
(* Dispatch                                                                  *)

EvNew(c) == CASE Algo = "fifo" -> FifoNew(c) [] Algo = "lru" -> LruNew(c)
              [] Algo = "lfu" -> LfuNew(c) [] Algo = "s3fifo" -> S3New(c)
              [] Algo = "sieve" -> SieveNew(c) [] Algo = "abs" -> AbsNew(c)
EvPush(e, rs, r) == CASE Algo = "fifo" -> FifoPush(e, rs, r) [] Algo = "lru" -> LruPush(e, rs, r)
              [] Algo = "lfu" -> LfuPush(e, rs, r) [] Algo = "s3fifo" -> S3Push(e, rs, r)
              [] Algo = "sieve" -> SievePush(e, rs, r) [] Algo = "abs" -> AbsPush(e, rs, r)
EvPopSet(e, rs) == CASE Algo = "fifo" -> {FifoPop(e, rs)} [] Algo = "lru" -> {LruPop(e, rs)}
              [] Algo = "lfu" -> {LfuPop(e, rs)} [] Algo = "s3fifo" -> {S3Pop(e, rs)}
              [] Algo = "sieve" -> {SievePop(e, rs)} [] Algo = "abs" -> AbsPopSet(e, rs)
EvRemove(e, rs, r) == CASE Algo = "fifo" -> FifoRemove(e, rs, r) [] Algo = "lru" -> LruRemove(e, rs, r)
              [] Algo = "lfu" -> LfuRemove(e, rs, r) [] Algo = "s3fifo" -> S3Remove(e, rs, r)
              [] Algo = "sieve" -> SieveRemove(e, rs, r) [] Algo = "abs" -> AbsRemove(e, rs, r)
EvIn(e, r) == CASE Algo = "fifo" -> FifoIn(e, r) [] Algo = "lru" -> LruIn(e, r)
              [] Algo = "lfu" -> LfuIn(e, r) [] Algo = "s3fifo" -> S3In(e, r)
              [] Algo = "sieve" -> SieveIn(e, r) [] Algo = "abs" -> AbsIn(e, r)
EvAcquire(e, rs, r) == CASE Algo = "fifo" -> e [] Algo = "lru" -> LruAcquire(e, rs, r)
              [] Algo = "lfu" -> LfuAcquire(e, rs, r) [] Algo = "s3fifo" -> S3Acquire(e, rs, r)
              [] Algo = "sieve" -> SieveAcquire(e, rs, r) [] Algo = "abs" -> AbsAcquire(e, rs, r)
EvRelease(e, rs, r) == CASE Algo = "lru" -> LruRelease(e, rs, r) [] Algo = "abs" -> AbsRelease(e, rs, r)
              [] OTHER -> e
EvUpdate(e, rs, c) == CASE Algo = "lru" -> LruUpdate(e, rs, c) [] Algo = "lfu" -> LfuUpdate(e, rs, c)
              [] Algo = "s3fifo" -> S3Update(e, rs, c) [] OTHER -> e
EvClear(e, rs) == CASE Algo = "fifo" -> FifoNew(0) [] Algo = "lru" -> LruClear(e)
              [] Algo = "lfu" -> LfuClear(e) [] Algo = "s3fifo" -> S3Clear(e, rs)
              [] Algo = "sieve" -> SieveClear(e, rs) [] Algo = "abs" -> AbsNew(0)
\* records a lookup may not evict (C18): LRU pin list / abs pin set
EvPinned(e) == CASE Algo = "lru" -> e.pinned [] Algo = "abs" -> e.pinned [] OTHER -> {}

-------------------------------------------------------------------------------
(* The evict-until-fits loop of RawCacheShard::evict                         *)

RECURSIVE EvictRuns(_, _, _, _, _)
EvictRuns(e, rs, u, target, acc) ==
    IF u <= target THEN {[ev |-> e, vs |-> acc, u |-> u]}
    ELSE UNION { IF p.r = NoRec THEN {[ev |-> p.ev, vs |-> acc, u |-> u]}
                 ELSE EvictRuns(p.ev, rs, u - rs[p.r].w, target, Append(acc, p.r))
                 : p \in EvPopSet(e, rs) }

ShardCap(total, s) == (total \div Shards) + (IF s < total % Shards THEN 1 ELSE 0)

RECURSIVE SumF(_, _)
SumF(f, S) == IF S = {} THEN 0 ELSE LET x == CHOOSE x \in S : TRUE IN f[x] + SumF(f, S \ {x})

TotalUsage == SumF(usage, ShardSet)
TotalEntries == SumF(entries, ShardSet)
Present == {k \in Keys : idx[k] # NoRec}
Held == {r \in 1 .. Len(refs) : refs[r] > 0}

Evs(reason, s) == [i \in 1 .. Len(s) |-> <<reason, s[i]>>]
RECURSIVE ApplyLeaves(_, _)
ApplyLeaves(lv, events) ==
    IF events = <<>> THEN lv
    ELSE LET e == Head(events) IN
         ApplyLeaves([lv EXCEPT ![e[2]] = Append(@, e[1])], Tail(events))
RECURSIVE ApplyPiped(_, _)
ApplyPiped(pp, sent) ==
    IF sent = <<>> THEN pp ELSE ApplyPiped([pp EXCEPT ![Head(sent)] = @ + 1], Tail(sent))

-------------------------------------------------------------------------------
(* Dropping one external handle of record r (RawCacheEntry::drop).           *)
(* Returns [refs, ev, events, sent].                                         *)
DropHandle(rf, e, rs, r) ==
    LET rf1 == [rf EXCEPT ![r] = @ - 1]
        s == ShardOf(rs[r].key) IN
    IF rf1[r] > 0 THEN [refs |-> rf1, ev |-> e, events |-> <<>>, sent |-> <<>>]
    ELSE IF rs[r].ph
         THEN [refs |-> rf1, ev |-> e, events |-> <<<<"evict", r>>>>, sent |-> <<r>>]
         ELSE [refs |-> rf1, ev |-> [e EXCEPT ![s] = EvRelease(@, rs, r)],
               events |-> <<>>, sent |-> <<>>]

Finish(op, res, rs, rf, e, events, sent) ==
    /\ recs' = rs
    /\ refs' = rf
    /\ ev' = e
    /\ leaves' = ApplyLeaves(Ext(leaves, Len(rs), <<>>), events)
    /\ piped' = ApplyPiped(Ext(piped, Len(rs), 0), sent)
    /\ out' = [op |-> op, res |-> res, events |-> events, piped |-> sent]

\* optionally drop the handle an operation returned
MaybeDrop(hold, op, res, rs, rf, e, events, sent, r) ==
    IF hold THEN Finish(op, res, rs, rf, e, events, sent)
    ELSE LET d == DropHandle(rf, e, rs, r) IN
         Finish(op, res, rs, d.refs, d.ev, events \o d.events, sent \o d.sent)

-------------------------------------------------------------------------------
(* Actions                                                                   *)

Init ==
    /\ recs = <<>> /\ refs = <<>> /\ leaves = <<>> /\ piped = <<>>
    /\ idx = [k \in Keys |-> NoRec]
    /\ \E c \in Cfg.initCaps :
          /\ cap = [s \in ShardSet |-> ShardCap(c, s)]
          /\ ev = [s \in ShardSet |-> EvNew(ShardCap(c, s))]
          /\ out = [op |-> [name |-> "init", cap |-> c], res |-> 0, events |-> <<>>, piped |-> <<>>]
    /\ usage = [s \in ShardSet |-> 0]
    /\ entries = [s \in ShardSet |-> 0]
    /\ alive = TRUE

\* the admitted branch of insert, given the outcome `run` of the evict-until-fits loop
InsertRun(k, w, hint, hold, run) ==
    LET r == Len(recs) + 1
        rs == Append(recs, [key |-> k, w |-> w, hint |-> hint, ph |-> FALSE])
        rf == Append(refs, 1)
        s == ShardOf(k)
        op == [name |-> "insert", k |-> k, w |-> w, hint |-> hint, ph |-> FALSE, hold |-> hold]
        gone == Range(run.vs)
        idx1 == [x \in Keys |-> IF idx[x] \in gone THEN NoRec ELSE idx[x]]
        old1 == idx1[k]
        e1 == IF old1 # NoRec /\ EvIn(run.ev, old1) THEN EvRemove(run.ev, rs, old1) ELSE run.ev
        e2 == EvPush(e1, rs, r)
        evs == Evs("evict", run.vs) \o (IF old1 # NoRec THEN <<<<"replace", old1>>>> ELSE <<>>) IN
    /\ idx' = [idx1 EXCEPT ![k] = r]
    /\ usage' = [usage EXCEPT ![s] = run.u - (IF old1 # NoRec THEN rs[old1].w ELSE 0) + w]
    /\ entries' = [entries EXCEPT ![s] = @ - Len(run.vs) + (IF old1 # NoRec THEN 0 ELSE 1)]
    /\ UNCHANGED <<cap, alive>>
    /\ MaybeDrop(hold, op, r, rs, rf, [ev EXCEPT ![s] = e2], evs, run.vs, r)

\* insert / insert_with_properties; ph = the filter rejected the entry (phantom)
Insert(k, w, hint, ph, hold) ==
    /\ alive
    /\ LET r == Len(recs) + 1
           rs == Append(recs, [key |-> k, w |-> w, hint |-> hint, ph |-> ph])
           rf == Append(refs, 1)
           s == ShardOf(k)
           op == [name |-> "insert", k |-> k, w |-> w, hint |-> hint, ph |-> ph, hold |-> hold]
           old == idx[k] IN
       IF ph
       THEN LET e1 == IF old # NoRec /\ EvIn(ev[s], old) THEN EvRemove(ev[s], rs, old) ELSE ev[s]
                evs == (IF old # NoRec THEN <<<<"replace", old>>>> ELSE <<>>) \o <<<<"remove", r>>>> IN
            /\ idx' = [idx EXCEPT ![k] = NoRec]
            /\ usage' = [usage EXCEPT ![s] = IF old # NoRec THEN @ - rs[old].w ELSE @]
            /\ entries' = [entries EXCEPT ![s] = IF old # NoRec THEN @ - 1 ELSE @]
            /\ UNCHANGED <<cap, alive>>
            /\ MaybeDrop(hold, op, r, rs, rf, [ev EXCEPT ![s] = e1], evs, <<>>, r)
       ELSE \E run \in EvictRuns(ev[s], rs, usage[s], Monus(cap[s], w), <<>>) :
                InsertRun(k, w, hint, hold, run)

\* get (hold: keep the returned handle)
Get(k, hold) ==
    /\ alive
    /\ LET r == idx[k]
           s == ShardOf(k)
           op == [name |-> "get", k |-> k, hold |-> hold] IN
       /\ UNCHANGED <<idx, cap, usage, entries, alive>>
       /\ IF r = NoRec THEN Finish(op, 0, recs, refs, ev, <<>>, <<>>)
          ELSE MaybeDrop(hold, op, r, recs, [refs EXCEPT ![r] = @ + 1],
                         [ev EXCEPT ![s] = EvAcquire(@, recs, r)], <<>>, <<>>, r)

\* touch = lookup whose handle is released at once
Touch(k) ==
    /\ alive
    /\ LET r == idx[k]
           s == ShardOf(k)
           op == [name |-> "touch", k |-> k] IN
       /\ UNCHANGED <<idx, cap, usage, entries, alive>>
       /\ IF r = NoRec THEN Finish(op, 0, recs, refs, ev, <<>>, <<>>)
          ELSE MaybeDrop(FALSE, op, 1, recs, [refs EXCEPT ![r] = @ + 1],
                         [ev EXCEPT ![s] = EvAcquire(@, recs, r)], <<>>, <<>>, r)

Contains(k) ==
    /\ alive
    /\ UNCHANGED <<idx, cap, usage, entries, alive>>
    /\ Finish([name |-> "contains", k |-> k], IF idx[k] # NoRec THEN 1 ELSE 0,
              recs, refs, ev, <<>>, <<>>)

CloneHandle(r) ==
    /\ r \in Held
    /\ UNCHANGED <<idx, cap, usage, entries, alive>>
    /\ Finish([name |-> "clone", r |-> r], r, recs, [refs EXCEPT ![r] = @ + 1], ev, <<>>, <<>>)

DropH(r) ==
    /\ r \in Held
    /\ UNCHANGED <<idx, cap, usage, entries, alive>>
    /\ LET d == DropHandle(refs, ev, recs, r) IN
       Finish([name |-> "drop", r |-> r], 0, recs, d.refs, d.ev, d.events, d.sent)

Remove(k, hold) ==
    /\ alive
    /\ LET r == idx[k]
           s == ShardOf(k)
           op == [name |-> "remove", k |-> k, hold |-> hold] IN
       IF r = NoRec
       THEN /\ UNCHANGED <<idx, cap, usage, entries, alive>>
            /\ Finish(op, 0, recs, refs, ev, <<>>, <<>>)
       ELSE /\ idx' = [idx EXCEPT ![k] = NoRec]
            /\ usage' = [usage EXCEPT ![s] = @ - recs[r].w]
            /\ entries' = [entries EXCEPT ![s] = @ - 1]
            /\ UNCHANGED <<cap, alive>>
            /\ MaybeDrop(hold, op, r, recs, [refs EXCEPT ![r] = @ + 1],
                         [ev EXCEPT ![s] = IF EvIn(@, r) THEN EvRemove(@, recs, r) ELSE @],
                         <<<<"remove", r>>>>, <<>>, r)

\* sorted sequence of a finite set of naturals
RECURSIVE SortedSeq(_)
SortedSeq(S) == IF S = {} THEN <<>>
                ELSE LET m == CHOOSE m \in S : \A y \in S : m <= y IN <<m>> \o SortedSeq(S \ {m})

\* clear: every shard drained; notifications (reason clear) in no particular order -
\* the observation lists them by ascending record id
Clear ==
    /\ alive
    /\ LET gone == {idx[k] : k \in Present} IN
       /\ idx' = [k \in Keys |-> NoRec]
       /\ usage' = [s \in ShardSet |-> 0]
       /\ entries' = [s \in ShardSet |-> 0]
       /\ UNCHANGED <<cap, alive>>
       /\ Finish([name |-> "clear"], 0, recs, refs, [s \in ShardSet |-> EvClear(ev[s], recs)],
                 Evs("clear", SortedSeq(gone)), <<>>)

\* evict(target) on every shard in shard order; ts[s] = target of shard s
RECURSIVE EvictShards(_, _, _, _, _)
\* returns set of [ev, u (function), vs]
EvictShards(e, u, ts, s, acc) ==
    IF s = Shards THEN {[ev |-> e, u |-> u, vs |-> acc]}
    ELSE UNION { EvictShards([e EXCEPT ![s] = run.ev], [u EXCEPT ![s] = run.u], ts, s + 1, acc \o run.vs)
                 : run \in EvictRuns(e[s], recs, u[s], ts[s], <<>>) }

EvictToRun(op, x) ==
    LET gone == Range(x.vs) IN
    /\ idx' = [k \in Keys |-> IF idx[k] \in gone THEN NoRec ELSE idx[k]]
    /\ usage' = x.u
    /\ entries' = [s \in ShardSet |->
                      entries[s] - Cardinality({r \in gone : ShardOf(recs[r].key) = s})]
    /\ Finish(op, 0, recs, refs, x.ev, Evs("evict", x.vs), x.vs)

EvictTo(op, e0, ts) == \E x \in EvictShards(e0, usage, ts, 0, <<>>) : EvictToRun(op, x)

\* exactly n pops (trace validation of the victim order takes the number of victims from the log)
RECURSIVE PopN(_, _, _, _, _)
PopN(e, rs, u, n, acc) ==
    IF n = 0 THEN {[ev |-> e, vs |-> acc, u |-> u]}
    ELSE UNION { IF p.r = NoRec THEN {[ev |-> p.ev, vs |-> acc, u |-> u]}
                 ELSE PopN(p.ev, rs, u - rs[p.r].w, n - 1, Append(acc, p.r))
                 : p \in EvPopSet(e, rs) }
RECURSIVE PopNShards(_, _, _, _, _)
PopNShards(e, u, ns, s, acc) ==
    IF s = Shards THEN {[ev |-> e, u |-> u, vs |-> acc]}
    ELSE UNION { PopNShards([e EXCEPT ![s] = run.ev], [u EXCEPT ![s] = run.u], ns, s + 1, acc \o run.vs)
                 : run \in PopN(e[s], recs, u[s], ns[s], <<>>) }

Resize(c) ==
    /\ alive
    /\ cap' = [s \in ShardSet |-> ShardCap(c, s)]
    /\ UNCHANGED alive
    /\ EvictTo([name |-> "resize", cap |-> c],
               [s \in ShardSet |-> EvUpdate(ev[s], recs, ShardCap(c, s))],
               [s \in ShardSet |-> ShardCap(c, s)])

EvictAll ==
    /\ alive
    /\ UNCHANGED <<cap, alive>>
    /\ EvictTo([name |-> "evict_all"], ev, [s \in ShardSet |-> 0])

Flush ==
    /\ alive
    /\ UNCHANGED <<cap, alive>>
    /\ EvictTo([name |-> "flush"], ev, [s \in ShardSet |-> 0])

\* dropping the last clone of the cache object with no handle outstanding = clear
DropCache ==
    /\ alive
    /\ Held = {}
    /\ alive' = FALSE
    /\ LET gone == {idx[k] : k \in Present} IN
       /\ idx' = [k \in Keys |-> NoRec]
       /\ usage' = [s \in ShardSet |-> 0]
       /\ entries' = [s \in ShardSet |-> 0]
       /\ UNCHANGED cap
       /\ Finish([name |-> "drop_cache"], 0, recs, refs, [s \in ShardSet |-> EvClear(ev[s], recs)],
                 Evs("clear", SortedSeq(gone)), <<>>)

-------------------------------------------------------------------------------
(* Properties                                                                *)

RecsOf(s) == {idx[k] : k \in {k \in Present : ShardOf(k) = s}}
RECURSIVE SumSet(_, _)
SumSet(rs, S) == IF S = {} THEN 0 ELSE LET x == CHOOSE x \in S : TRUE IN rs[x].w + SumSet(rs, S \ {x})

\* C05
UsageExact   == \A s \in ShardSet : usage[s] = SumSet(recs, RecsOf(s))
EntriesExact == \A s \in ShardSet : entries[s] = Cardinality(RecsOf(s))
CapacitySplitExact == \A c \in 0 .. 9 : SumF([s \in ShardSet |-> ShardCap(c, s)], ShardSet) = c
IndexConsistent ==
    /\ \A k \in Present : recs[idx[k]].key = k /\ ~recs[idx[k]].ph
    /\ \A s \in ShardSet : \A r \in 1 .. Len(recs) : EvIn(ev[s], r) <=> r \in RecsOf(s)
\* after an insert the shard is within capacity unless everything else in it is pinned
\* or the new entry alone exceeds the shard
WithinCapacityUnless ==
    out.op.name = "insert" /\ ~out.op.ph =>
        LET s == ShardOf(out.op.k)
            r == out.res IN
        \/ usage[s] <= cap[s]
        \/ RecsOf(s) \ {r} \subseteq EvPinned(ev[s])
        \/ out.op.w > cap[s]
\* every victim of an insert was needed, and eviction stopped only when it fits
\* or nothing is evictable (stated on the step: pre-state usage vs victims)
MinimalEviction ==
    [][ (out'.op.name = "insert" /\ ~out'.op.ph) =>
          LET s == ShardOf(out'.op.k)
              w == out'.op.w
              vs == out'.piped
              target == Monus(cap[s], w) IN
          /\ \A j \in 1 .. Len(vs) : usage[s] - SumW(recs', SubSeq(vs, 1, j - 1)) > target
          /\ \/ usage[s] - SumW(recs', vs) <= target
             \/ (RecsOf(s) \ Range(vs)) \subseteq EvPinned(ev[s]) ]_vars
ClearZero == out.op.name \in {"clear", "drop_cache"} => TotalUsage = 0 /\ TotalEntries = 0 /\ Present = {}
ResizeBound ==
    out.op.name = "resize" =>
        \A s \in ShardSet : usage[s] <= cap[s] \/ RecsOf(s) \subseteq EvPinned(ev[s])

\* C13
Admitted == {r \in 1 .. Len(recs) : ~recs[r].ph}
Resident == {idx[k] : k \in Present}
LeaveOnce == \A r \in Admitted :
                 Len(leaves[r]) = IF r \in Resident THEN 0 ELSE 1
PhantomLeaves == \A r \in (1 .. Len(recs)) \ Admitted :
                 leaves[r] = IF refs[r] > 0 THEN <<"remove">> ELSE <<"remove", "evict">>
PipedIffEvicted == \A r \in 1 .. Len(recs) :
                 piped[r] = IF r \in Admitted
                            THEN (IF leaves[r] = <<"evict">> THEN 1 ELSE 0)
                            ELSE (IF refs[r] = 0 THEN 1 ELSE 0)
Conservation == Cardinality(Admitted) = Cardinality(Resident) + Cardinality({r \in Admitted : Len(leaves[r]) = 1})

\* C17: a lookup answers with a record of the requested key
CollidingKeysDistinct ==
    out.op.name \in {"get", "remove"} /\ out.res # 0 => recs[out.res].key = out.op.k

\* C18
PinnedNeverVictim ==
    [][ \A i \in 1 .. Len(out'.events) :
          out'.events[i][1] = "evict" /\ ~recs'[out'.events[i][2]].ph =>
             out'.events[i][2] \notin UNION {EvPinned(ev[s]) : s \in ShardSet} ]_vars
\* the pin set is exactly "looked up and not yet fully released": pinned records are held
PinnedAreHeld == \A s \in ShardSet : \A r \in EvPinned(ev[s]) : refs[r] > 0
\* what is_outdated() must report for a held record (part of the observation)
Outdated(r) == idx[recs[r].key] # r
\* with no handles outstanding nothing is pinned, so the next insert restores the bound
NoLeakAfterRelease == Held = {} => \A s \in ShardSet : EvPinned(ev[s]) = {}

TypeOK ==
    /\ Len(refs) = Len(recs) /\ Len(leaves) = Len(recs) /\ Len(piped) = Len(recs)
    /\ \A k \in Keys : idx[k] \in 0 .. Len(recs)

Inv == /\ TypeOK /\ UsageExact /\ EntriesExact /\ IndexConsistent /\ WithinCapacityUnless
       /\ ClearZero /\ ResizeBound /\ LeaveOnce /\ PhantomLeaves /\ PipedIffEvicted
       /\ Conservation /\ CollidingKeysDistinct /\ PinnedAreHeld
       /\ NoLeakAfterRelease
===============================================================================
