------------------------------- MODULE MC_Codec -------------------------------
(* All sequences of up to MaxN pushes of payload lengths 0..MaxLen into buffers of Rooms, per-entry limits *)
(* MaxEntries: accepted entries lie inside the buffer, do not overlap, start page aligned; a rejected one   *)
(* does not move the write position; the boundary cases (exact fit, one byte over, header does not fit,     *)
(* over the per-entry limit while it would fit the room) are reachable.                                      *)
EXTENDS Codec, FiniteSets, TLC

CONSTANTS Rooms, MaxEntries, MaxLen, MaxN

VARIABLES room, maxEntry, ls

vars == <<room, maxEntry, ls>>

Init == room \in Rooms /\ maxEntry \in MaxEntries /\ ls = <<>>
Next == Len(ls) < MaxN /\ \E n \in 0 .. MaxLen : ls' = Append(ls, n) /\ UNCHANGED <<room, maxEntry>>
Spec == Init /\ [][Next]_vars

P == Pack(room, 0, maxEntry, ls, <<>>)
End(i) == P[i].off + AlignUp(Header + ls[i])

InsideBuffer == \A i \in DOMAIN P : P[i].ok => P[i].off + Header + ls[i] <= room
PageAligned == \A i \in DOMAIN P : P[i].ok => P[i].off % Page = 0
NoOverlap == \A i, j \in DOMAIN P : (i < j /\ P[i].ok /\ P[j].ok) => End(i) <= P[j].off
WithinLimit == \A i \in DOMAIN P : P[i].ok => AlignUp(Header + ls[i]) <= maxEntry
RejectLeavesNoTrace == \A i \in DOMAIN P : (~P[i].ok /\ i < Len(P)) => P[i + 1].off = P[i].off
\* nothing that fits is refused: a rejected entry really violates one of the three conditions
NoSpuriousReject == \A i \in DOMAIN P : ~P[i].ok =>
                        \/ Header + ls[i] > room - P[i].off
                        \/ AlignUp(Header + ls[i]) > maxEntry
Inv == InsideBuffer /\ PageAligned /\ NoOverlap /\ WithinLimit /\ RejectLeavesNoTrace /\ NoSpuriousReject

W_ExactFit == ~(\E i \in DOMAIN P : P[i].ok /\ P[i].off + Header + ls[i] = room)
W_OneOver == ~(\E i \in DOMAIN P : ~P[i].ok /\ P[i].off + Header + ls[i] = room + 1)
W_LimitOnly == ~(\E i \in DOMAIN P : ~P[i].ok /\ Header + ls[i] <= room - P[i].off)
===============================================================================
