------------------------------ MODULE MC_PinRace ------------------------------
(***************************************************************************)
(* Bounded instance of PinRace: threads 1..N, the threads of Owners hold a *)
(* looked-up handle at the start.  With Emit, every schedule (the order in *)
(* which the driver starts the operations before it releases the lock) is  *)
(* printed once, as a script for `harness pin-race`.                       *)
(***************************************************************************)
EXTENDS PinRace, Json

CONSTANTS Owners, Emit

VARIABLES starts    \* Seq([t, op, from]) in start order

mcvars == <<vars, starts>>

MCInit == Init(Owners) /\ starts = <<>>

MCNext ==
    \/ \E t \in Threads :
          \/ StartDrop(t) /\ starts' = Append(starts, [t |-> t, op |-> "drop", from |-> 0])
          \/ \E f \in Threads : StartClone(t, f) /\ starts' = Append(starts, [t |-> t, op |-> "clone", from |-> f])
          \/ \E o \in {"get", "remove"} : StartLocked(t, o) /\ starts' = Append(starts, [t |-> t, op |-> o, from |-> 0])
    \/ /\ Unblock /\ starts # <<>> /\ UNCHANGED starts
       /\ Emit => PrintT(ToJson([owners |-> Owners, starts |-> starts]))
    \/ \E t \in Threads : Locked(t) /\ UNCHANGED starts
    \/ Pressure /\ UNCHANGED starts

MCSpec == MCInit /\ [][MCNext]_mcvars
MCView == <<vars, starts>>
===============================================================================
