---------------------------- MODULE Trace_TombLog ----------------------------
(***************************************************************************)
(* Trace validation for C10 with the real constants (256 slots per page).  *)
(* `harness tomb-run` drives a real store with the tombstone log enabled:  *)
(*   {"a":"init","n":N}      N keys inserted and flushed (older copies on  *)
(*                           disk, so a lost tombstone is a resurrection)  *)
(*   {"a":"del","ks":[..]}   these keys removed and the removal flushed    *)
(*   {"a":"reins","k":k}     key inserted again and flushed                *)
(*   {"a":"reopen"}          close (or kill) and reopen                    *)
(*   {"a":"probe","present":[..],"absent":[..]}  lookups of every key      *)
(* The specification keeps the ring as the intended algorithm maintains it *)
(* and decides, for every key whose latest operation is a flushed delete,  *)
(* whether that tombstone must still be in the log (it is among the most   *)
(* recent Cap-1 appended); such a key must read absent.  A re-inserted key *)
(* must read present (its entry has a higher sequence than the tombstone). *)
(***************************************************************************)
EXTENDS TombLog, Json, IOUtils, TLCExt

\* the run was recorded on an engine with several flushers: the tombstones of one flushed batch (at most TSlack)
\* are not appended in sequence order, so up to TSlack more of the oldest may already be overwritten.  The ring
\* itself is kept in the idealised sequence order here (Flushers = 1 in the configuration of this module)
CONSTANT TSlack

VARIABLES l, bad, reins

tvars == <<vars, l, bad, reins>>

Rec == ndJsonDeserialize(IOEnv.TRACE)

MustBeAbsent(k) ==
    /\ deleted[k] # 0
    /\ \E i \in 1 .. Len(hist) : hist[i] = deleted[k] /\ i > Len(hist) - (Cap - 1 - TSlack)

TraceInit == Init /\ l = 1 /\ bad = {} /\ reins = {}

TraceNext ==
    /\ l <= Len(Rec)
    /\ LET e == Rec[l] IN
       CASE e.a = "init" ->
              /\ ring' = [x \in 0 .. Cap - 1 |-> Empty] /\ slot' = 1 /\ bufPage' = 0
              /\ buf' = [i \in 0 .. SlotsPerPage - 1 |-> Empty]
              /\ seq' = e.n + 1          \* the N loaded entries took sequences 0..N-1 (+1: ours start at 1)
              /\ deleted' = [k \in 1 .. NKeys |-> 0] /\ hist' = <<>> /\ lastpos' = Cap /\ open' = TRUE
              /\ bad' = {} /\ reins' = {}
         [] e.a = "del" -> AppendBatch(e.ks) /\ bad' = {} /\ reins' = reins \ {e.ks[i] : i \in DOMAIN e.ks}
         \* each key inserted and removed inside one flushed batch (the inserts take sequences too; their relative
         \* order to the tombstones does not matter here)
         [] e.a = "insdel" -> AppendBatchFrom(e.ks, seq + Len(e.ks)) /\ bad' = {}
                              /\ reins' = reins \ {e.ks[i] : i \in DOMAIN e.ks}
         [] e.a = "reins" ->
              /\ deleted' = [deleted EXCEPT ![e.k] = 0] /\ seq' = seq + 1 /\ reins' = reins \cup {e.k}
              /\ UNCHANGED <<ring, slot, bufPage, buf, hist, lastpos, open>> /\ bad' = {}
         [] e.a = "reopen" -> Reopen /\ bad' = {} /\ UNCHANGED reins
         [] e.a = "probe" ->
              /\ UNCHANGED <<vars, reins>>
              /\ bad' = {<<"C10", "flushed_delete_resurrected", e.present[i]>> :
                           i \in {i \in DOMAIN e.present : MustBeAbsent(e.present[i])}}
                        \cup {<<"C10", "reinsert_hidden_by_old_tombstone", e.absent[i]>> :
                           i \in {i \in DOMAIN e.absent : e.absent[i] \in reins}}
    /\ l' = l + 1

TraceSpec == TraceInit /\ [][TraceNext]_tvars

NoViolation_C10 == bad = {}
TraceInv == Inv

Consumed ==
    /\ PrintT(<<"CONSUMED", TLCGet("stats").diameter - 1, Len(Rec)>>)
    /\ TRUE
===============================================================================
