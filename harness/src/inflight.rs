//! Driver for fetch coalescing (spec/Inflight.tla): every environment action of the specification
//! (call, run a task's executor, resolve a disk lookup / origin closure, drop a caller, cancel a
//! task, user insert / remove) is one deterministic step here. Each caller's fetch task is spawned
//! on a current-thread runtime of its own, turned by hand.

use std::{
    collections::BTreeMap,
    future::Future,
    pin::Pin,
    sync::Arc,
    task::{Context, Poll, Waker},
};

use foyer_common::{
    error::{Error, ErrorKind},
    spawn::Spawner,
};
use foyer_memory::{Cache, CacheBuilder, CacheProperties, FetchTarget, GetOrFetch};
use parking_lot::Mutex;
use serde_json::{Value as J, json};

use crate::mem::{MemCfg, TableHashBuilder, Val, eviction_config, table_of};

type C = Cache<u64, Val, TableHashBuilder, CacheProperties>;
type Fut = GetOrFetch<u64, Val, TableHashBuilder, CacheProperties>;
type Target = FetchTarget<u64, Val, CacheProperties>;

#[derive(Default)]
struct SlotInner {
    outcome: Option<(String, u64)>,
    waker: Option<Waker>,
    /// a future for this slot exists and has been polled at least once
    polled: bool,
    /// the future has been dropped, or has returned Ready
    finished: bool,
}

#[derive(Default, Clone)]
struct Slot(Arc<Mutex<SlotInner>>);

impl Slot {
    fn resolve(&self, kind: &str, v: u64) {
        let mut g = self.0.lock();
        if g.outcome.is_some() {
            return; // an outcome is chosen once (ResolveOpt / ResolveReq are enabled once per slot)
        }
        g.outcome = Some((kind.to_string(), v));
        if let Some(w) = g.waker.take() {
            drop(g);
            w.wake();
        }
    }
    fn running(&self) -> bool {
        let g = self.0.lock();
        g.polled && !g.finished && g.outcome.is_none()
    }
}

struct SlotFuture {
    slot: Slot,
}

impl Future for SlotFuture {
    type Output = (String, u64);
    fn poll(self: Pin<&mut Self>, cx: &mut Context<'_>) -> Poll<Self::Output> {
        let mut g = self.slot.0.lock();
        g.polled = true;
        match g.outcome.clone() {
            Some(o) => {
                g.finished = true;
                Poll::Ready(o)
            }
            None => {
                g.waker = Some(cx.waker().clone());
                Poll::Pending
            }
        }
    }
}

impl Drop for SlotFuture {
    fn drop(&mut self) {
        self.slot.0.lock().finished = true;
    }
}

struct Caller {
    /// the key this caller asked for
    key: u64,
    fut: Option<Pin<Box<Fut>>>,
    result: (String, u64),
    rt: Option<tokio::runtime::Runtime>,
    opt: Slot,
    req: Slot,
}

pub struct InflightRunner {
    cache: C,
    keys: Vec<u64>,
    callers: BTreeMap<u64, Caller>,
    nv: u64,
}

fn val(key: u64, ver: u64) -> Val {
    Val {
        key,
        ver,
        w: 1,
        ph: false,
        probe: false,
    }
}

impl InflightRunner {
    pub fn new(cfg: &MemCfg) -> Result<Self, String> {
        let (table, keys) = table_of(cfg)?;
        let cache: C = CacheBuilder::new(1 << 20)
            .with_shards(cfg.shards)
            .with_eviction_config(eviction_config(cfg)?)
            .with_hash_builder(TableHashBuilder::new(table))
            .with_weighter(|_: &u64, v: &Val| v.w)
            .build();
        Ok(Self {
            cache,
            keys,
            callers: BTreeMap::new(),
            nv: 0,
        })
    }

    pub fn apply(&mut self, op: &J) -> Result<(), String> {
        let a = op["a"].as_str().ok_or("action without name")?;
        let c = op.get("c").and_then(|x| x.as_u64()).unwrap_or(0);
        let k = op.get("k").and_then(|x| x.as_u64()).unwrap_or(0);
        match a {
            "init" | "end" => {}
            "call" => {
                let kind = op["kind"].as_str().ok_or("call without kind")?;
                let has_opt = kind == "get" || kind == "hfetch";
                let has_req = kind == "fetch" || kind == "hfetch";
                let rt = tokio::runtime::Builder::new_current_thread()
                    .build()
                    .map_err(|e| format!("runtime: {e}"))?;
                let spawner = Spawner::from(rt.handle().clone());
                let opt = Slot::default();
                let req = Slot::default();
                let (o2, r2) = (opt.clone(), req.clone());
                let fut = self.cache.get_or_fetch_inner(
                    &k,
                    move || {
                        if !has_opt {
                            return None;
                        }
                        Some(Box::new(move |_: &mut ()| {
                            let f = SlotFuture { slot: o2 };
                            let fut: Pin<Box<dyn Future<Output = foyer_common::error::Result<Option<Target>>> + Send>> =
                                Box::pin(async move {
                                    let (kind, v) = f.await;
                                    match kind.as_str() {
                                        "hit" => Ok(Some(FetchTarget::Entry {
                                            value: val(k, v),
                                            properties: CacheProperties::default(),
                                        })),
                                        "miss" | "thr" => Ok(None),
                                        _ => Err(Error::new(ErrorKind::Io, "injected disk error")),
                                    }
                                });
                            fut
                        }) as _)
                    },
                    move || {
                        if !has_req {
                            return None;
                        }
                        Some(Box::new(move |_: &mut ()| {
                            let f = SlotFuture { slot: r2 };
                            let fut: Pin<Box<dyn Future<Output = foyer_common::error::Result<Target>> + Send>> =
                                Box::pin(async move {
                                    let (kind, v) = f.await;
                                    match kind.as_str() {
                                        "ok" => Ok(FetchTarget::Entry {
                                            value: val(k, v),
                                            properties: CacheProperties::default(),
                                        }),
                                        _ => Err(Error::new(ErrorKind::External, "injected origin error")),
                                    }
                                });
                            fut
                        }) as _)
                    },
                    (),
                    &spawner,
                );
                self.callers.insert(
                    c,
                    Caller {
                        key: k,
                        fut: Some(Box::pin(fut)),
                        result: ("pending".into(), 0),
                        rt: Some(rt),
                        opt,
                        req,
                    },
                );
            }
            "run" => {
                let Some(cal) = self.callers.get(&c) else { return Ok(()) };
                // a cancelled task's runtime is gone: running it is a no-op (as in the specification)
                if let Some(rt) = cal.rt.as_ref() {
                    rt.block_on(async {
                        for _ in 0..6 {
                            tokio::task::yield_now().await;
                        }
                    });
                }
            }
            "ropt" | "rreq" => {
                let o = op["o"].as_str().ok_or("resolve without outcome")?;
                let v = if o == "hit" || o == "ok" {
                    self.nv += 1;
                    self.nv
                } else {
                    0
                };
                if let Some(cal) = self.callers.get(&c) {
                    if a == "ropt" { cal.opt.resolve(o, v) } else { cal.req.resolve(o, v) }
                }
            }
            "dropc" => {
                if let Some(cal) = self.callers.get_mut(&c) {
                    if cal.fut.is_some() {
                        cal.fut = None;
                        cal.result = ("dropped".into(), 0);
                    }
                }
            }
            "cancel" => {
                // dropping a current-thread runtime drops the tasks it owns
                if let Some(cal) = self.callers.get_mut(&c) {
                    drop(cal.rt.take());
                }
            }
            "ins" => {
                self.nv += 1;
                drop(self.cache.insert(k, val(k, self.nv)));
            }
            "rem" => {
                drop(self.cache.remove(&k));
            }
            other => return Err(format!("unknown action {other}")),
        }
        Ok(())
    }

    /// `Obs` of MC_Inflight.tla.
    pub fn observe(&mut self, callers: &[u64]) -> J {
        let mut cx = Context::from_waker(Waker::noop());
        for cal in self.callers.values_mut() {
            if let Some(f) = cal.fut.as_mut() {
                if let Poll::Ready(r) = f.as_mut().poll_inner(&mut cx) {
                    cal.result = match r {
                        // an answer is foreign if the entry handed to the caller is not an entry of the key it asked for
                        Ok(Some(e)) => (
                            "val".into(),
                            e.value().ver + if e.value().key == cal.key && *e.key() == cal.key { 0 } else { 1_000_000 },
                        ),
                        Ok(None) => ("none".into(), 0),
                        Err(e) => match e.kind() {
                            ErrorKind::TaskCancelled => ("cancelled".into(), 0),
                            ErrorKind::ChannelClosed => ("closed".into(), 0),
                            _ => ("err".into(), 0),
                        },
                    };
                    cal.fut = None;
                }
            }
        }
        let cal: Vec<J> = callers
            .iter()
            .map(|c| match self.callers.get(c) {
                None => json!(["idle", 0]),
                Some(x) => json!([x.result.0, x.result.1]),
            })
            .collect();
        let mem: Vec<u64> = self
            .keys
            .iter()
            .map(|k| match self.cache.get(k) {
                None => 0,
                Some(e) => e.value().ver + if e.value().key == *k { 0 } else { 1_000_000 },
            })
            .collect();
        let run: Vec<u8> = callers
            .iter()
            .map(|c| self.callers.get(c).map(|x| x.req.running() as u8).unwrap_or(0))
            .collect();
        let orun: Vec<u8> = callers
            .iter()
            .map(|c| self.callers.get(c).map(|x| x.opt.running() as u8).unwrap_or(0))
            .collect();
        json!({"cal": cal, "mem": mem, "run": run, "orun": orun})
    }
}

pub struct InflightEngine {
    runner: InflightRunner,
    callers: Vec<u64>,
}

impl InflightEngine {
    pub fn new(cfg: &MemCfg, callers: Vec<u64>) -> Result<Self, String> {
        Ok(Self {
            runner: InflightRunner::new(cfg)?,
            callers,
        })
    }
}

impl crate::Engine for InflightEngine {
    fn step(&mut self, op: &J) -> Result<J, String> {
        self.runner.apply(op)?;
        Ok(self.runner.observe(&self.callers))
    }
}

pub fn nontrivial(e: &J) -> bool {
    // at least one caller was answered
    e["cal"].as_array().map(|a| a.iter().any(|c| c[0] != "idle" && c[0] != "pending")).unwrap_or(false)
}
