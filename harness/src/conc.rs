//! Multi-threaded driver of the memory cache (spec/MemLin.tla, Trace_MemLin.tla): real threads run
//! random programs against one shared cache; every call is logged as an invocation and a response
//! event stamped by one global atomic counter, so the order of the stamps is the real-time order.
//! With `reentrant` the user callbacks also call back into the cache (C16: no combination of concurrent
//! operations may deadlock - a run that does not finish is reported by the watchdog).

use std::{
    io::Write,
    sync::{
        Arc,
        atomic::{AtomicU64, Ordering},
    },
};

use foyer_memory::{Cache, CacheBuilder, CacheProperties};
use serde::Deserialize;
use serde_json::{Value as J, json};

use crate::mem::{Lcg, MemCfg, TableHashBuilder, Val, eviction_config, table_of};

#[derive(Clone, Debug, Deserialize)]
pub struct ConcParams {
    pub threads: usize,
    pub ops: usize,
    pub runs: usize,
    pub keys: Vec<u64>,
    pub caps: Vec<usize>,
    #[serde(default)]
    pub fetch: bool,
}

type C = Cache<u64, Val, TableHashBuilder, CacheProperties>;

struct ReListener;

impl foyer_common::event::EventListener for ReListener {
    type Key = u64;
    type Value = Val;
    fn on_leave(&self, _: foyer_common::event::Event, _: &u64, value: &Val) {
        if value.probe {
            crate::mem::reenter();
        }
    }
}

struct Shared {
    stamp: AtomicU64,
    ver: AtomicU64,
    id: AtomicU64,
}

fn ev(sh: &Shared, mut e: J) -> (u64, J) {
    let s = sh.stamp.fetch_add(1, Ordering::SeqCst);
    e["s"] = json!(s);
    (s, e)
}

fn reading(v: &Val, want: u64) -> (u64, bool) {
    (v.ver, v.key != want)
}

pub fn run_one(cfg: &MemCfg, prm: &ConcParams, seed: u64) -> Result<Vec<J>, String> {
    let (table, _) = table_of(cfg)?;
    let mut rng0 = Lcg(seed);
    let cap = prm.caps[rng0.below(prm.caps.len())];
    let cache: C = CacheBuilder::new(cap)
        .with_shards(cfg.shards)
        .with_eviction_config(eviction_config(cfg)?)
        .with_hash_builder(TableHashBuilder::new(table))
        .with_weighter(|_: &u64, v: &Val| {
            if v.probe {
                crate::mem::reenter();
            }
            v.w
        })
        .with_event_listener(Arc::new(ReListener))
        .build();
    let reentrant = cfg.reentrant;
    let shards = cfg.shards;
    let sh = Arc::new(Shared {
        stamp: AtomicU64::new(1),
        ver: AtomicU64::new(1),
        id: AtomicU64::new(1),
    });
    let mut handles = vec![];
    for t in 0..prm.threads {
        let cache = cache.clone();
        let sh = sh.clone();
        let prm = prm.clone();
        let mut rng = Lcg(seed.wrapping_mul(31).wrapping_add(t as u64 * 7919 + 13));
        handles.push(std::thread::spawn(move || {
            if reentrant {
                crate::mem::set_reentry(Some(cache.clone()), shards);
            }
            let mut log: Vec<(u64, J)> = vec![];
            let mut held: Vec<(u64, u64, foyer_memory::CacheEntry<u64, Val, TableHashBuilder, CacheProperties>)> = vec![];
            let rt = tokio::runtime::Builder::new_current_thread().build().ok();
            for _ in 0..prm.ops {
                let k = *rng.pick(&prm.keys);
                let id = sh.id.fetch_add(1, Ordering::SeqCst);
                match rng.below(if prm.fetch { 12 } else { 11 }) {
                    0..=2 => {
                        let v = sh.ver.fetch_add(1, Ordering::SeqCst);
                        log.push(ev(&sh, json!({"e": "iw", "id": id, "k": k, "v": v})));
                        let h = cache.insert(
                            k,
                            Val {
                                key: k,
                                ver: v,
                                w: 1 + (v % 2) as usize,
                                ph: false,
                                probe: reentrant,
                            },
                        );
                        log.push(ev(&sh, json!({"e": "rw", "id": id})));
                        if rng.below(3) == 0 && held.len() < 3 {
                            held.push((k, v, h));
                        }
                    }
                    3 => {
                        log.push(ev(&sh, json!({"e": "iw", "id": id, "k": k, "v": 0})));
                        drop(cache.remove(&k));
                        log.push(ev(&sh, json!({"e": "rw", "id": id})));
                    }
                    4..=6 => {
                        log.push(ev(&sh, json!({"e": "ir", "id": id, "k": k})));
                        let r = cache.get(&k);
                        let (v, foreign) = r.as_ref().map(|h| reading(h.value(), k)).unwrap_or((0, false));
                        log.push(ev(&sh, json!({"e": "rr", "id": id, "v": v, "foreign": foreign})));
                        if let Some(h) = r {
                            if rng.below(3) == 0 && held.len() < 3 {
                                held.push((k, v, h));
                            }
                        }
                    }
                    7 => {
                        let _ = cache.contains(&k);
                        let _ = cache.touch(&k);
                    }
                    8 => {
                        // re-read a held handle: it must still show what it showed when it was obtained
                        if !held.is_empty() {
                            let i = rng.below(held.len());
                            let (hk, hv, h) = &held[i];
                            let intact = h.value().ver == *hv && h.key() == hk && h.value().key == *hk;
                            log.push(ev(&sh, json!({"e": "h", "intact": intact})));
                            if rng.below(2) == 0 {
                                held.remove(i);
                            }
                        }
                    }
                    9 => match rng.below(3) {
                        0 => {
                            // clear = a remove of every key that takes effect somewhere inside the call
                            let ids: Vec<u64> = prm.keys.iter().map(|_| sh.id.fetch_add(1, Ordering::SeqCst)).collect();
                            for (kk, wid) in prm.keys.iter().zip(ids.iter()) {
                                log.push(ev(&sh, json!({"e": "iw", "id": wid, "k": kk, "v": 0})));
                            }
                            cache.clear();
                            for wid in ids.iter() {
                                log.push(ev(&sh, json!({"e": "rw", "id": wid})));
                            }
                        }
                        1 => cache.evict_all(),
                        _ => {
                            let _ = cache.resize(*rng.pick(&prm.caps));
                        }
                    },
                    10 => {
                        held.clear();
                    }
                    _ => {
                        // get_or_fetch: a lookup that, on a miss, stores what the origin returns
                        if let Some(rt) = rt.as_ref() {
                            log.push(ev(&sh, json!({"e": "ir", "id": id, "k": k})));
                            let sh2 = sh.clone();
                            let wid = sh.id.fetch_add(1, Ordering::SeqCst);
                            let started = Arc::new(AtomicU64::new(0));
                            let st2 = started.clone();
                            let mut wlog: Vec<(u64, J)> = vec![];
                            let r = rt.block_on(async { cache.get_or_fetch(&k, || async move {
                                let v = sh2.ver.fetch_add(1, Ordering::SeqCst);
                                st2.store(v, Ordering::SeqCst);
                                Ok::<_, anyhow::Error>(Val {
                                    key: k,
                                    ver: v,
                                    w: 1,
                                    ph: false,
                                    probe: reentrant,
                                })
                            }).await });
                            // the origin's value is a write that was in progress during the whole call
                            let fv = started.load(Ordering::SeqCst);
                            if fv != 0 {
                                // stamped before the response of the lookup; invocation is back-dated to the
                                // lookup's own invocation by placing it right after it in the log
                                wlog.push((log.last().unwrap().0, json!({"e": "iw", "id": wid, "k": k, "v": fv, "s": log.last().unwrap().0})));
                            }
                            log.extend(wlog);
                            let (v, foreign) = match r.as_ref() {
                                Ok(h) => reading(h.value(), k),
                                Err(_) => (0, false),
                            };
                            log.push(ev(&sh, json!({"e": "rr", "id": id, "v": v, "foreign": foreign})));
                            if fv != 0 {
                                log.push(ev(&sh, json!({"e": "rw", "id": wid})));
                            }
                        }
                    }
                }
            }
            drop(held);
            crate::mem::set_reentry(None, shards);
            log
        }));
    }
    let mut all: Vec<(u64, J)> = vec![];
    for h in handles {
        all.extend(h.join().map_err(|_| "worker thread panicked".to_string())?);
    }
    // stable sort: events that share a stamp keep their per-thread order
    all.sort_by_key(|(s, _)| *s);
    let mut out = vec![json!({"e": "reset"})];
    out.extend(all.into_iter().map(|(_, e)| e));
    Ok(out)
}

pub fn run(cfg: &MemCfg, prm: &ConcParams, seed: u64, w: &mut impl Write) -> Result<(usize, usize), String> {
    let mut events = 0;
    for r in 0..prm.runs {
        let evs = run_one(cfg, prm, seed.wrapping_mul(1_000_003).wrapping_add(r as u64))?;
        for (j, e) in evs.iter().enumerate() {
            let mut e = e.clone();
            e["script"] = json!(r);
            e["step"] = json!(j);
            e["mis"] = json!(false);
            writeln!(w, "{e}").map_err(|e| format!("write: {e}"))?;
        }
        events += evs.len();
    }
    Ok((prm.runs, events))
}
