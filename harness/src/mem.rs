//! Driver for the in-memory tier (`foyer_memory::Cache`): executes operation scripts produced by
//! TLC from spec/MemCache.tla on the real cache, observes the projection the specification defines
//! (`Obs` in MC_MemCache.tla) through the public API only, and either compares it with the
//! specification's expectation (edge replay) or writes it out as a trace for TLC trace validation.

use std::{
    collections::{BTreeMap, HashMap},
    future::Future,
    hash::{BuildHasher, Hasher},
    pin::Pin,
    sync::Arc,
    task::{Context, Poll, Waker},
};

use foyer_common::{event::Event, event::EventListener, properties::Hint};
use foyer_memory::{
    Cache, CacheBuilder, CacheEntry, CacheProperties, EvictionConfig, FifoConfig, LfuConfig, LruConfig, Piece, Pipe,
    S3FifoConfig, SieveConfig,
};
use parking_lot::Mutex;
use serde::{Deserialize, Serialize};
use serde_json::{Value as J, json};

#[derive(Clone, Debug, Deserialize, Serialize)]
pub struct AlgoCfg {
    #[serde(rename = "hiNum")]
    pub hi_num: u64,
    #[serde(rename = "hiDen")]
    pub hi_den: u64,
    #[serde(rename = "wNum")]
    pub w_num: u64,
    #[serde(rename = "wDen")]
    pub w_den: u64,
    #[serde(rename = "pNum")]
    pub p_num: u64,
    #[serde(rename = "pDen")]
    pub p_den: u64,
    #[serde(rename = "sNum")]
    pub s_num: u64,
    #[serde(rename = "sDen")]
    pub s_den: u64,
    #[serde(rename = "gNum")]
    pub g_num: u64,
    #[serde(rename = "gDen")]
    pub g_den: u64,
    pub thr: u8,
}

#[derive(Clone, Debug, Deserialize, Serialize)]
pub struct MemCfg {
    pub algo: String,
    pub shards: usize,
    /// key -> hash
    pub hash: BTreeMap<String, u64>,
    pub cfg: AlgoCfg,
    /// C16: weighter, filter, listener, pipe and the value destructor call back into the same cache
    #[serde(default)]
    pub reentrant: bool,
    /// lookups of resident keys go through `get_or_fetch` (the hit path of the fetch API) instead of `get`
    #[serde(default)]
    pub lookup_via_fetch: bool,
    /// no event listener is installed (the pipe alone observes what leaves)
    #[serde(default)]
    pub no_listener: bool,
    /// a second cache without event listener is driven in lockstep and the hand-offs to the pipe reported are
    /// ITS hand-offs: what reaches the disk tier must not depend on whether a listener is installed
    #[serde(default)]
    pub shadow_no_listener: bool,
}

impl MemCfg {
    /// The specification computes derived capacities with integer arithmetic (`cap * num \div den`);
    /// the code uses `(cap as f64 * ratio) as usize`. Refuse to run (tool error, not a verdict) if the
    /// two disagree for any capacity that can occur.
    pub fn precheck(&self) -> Result<(), String> {
        let c = &self.cfg;
        for (n, d, what) in [
            (c.hi_num, c.hi_den, "hi"),
            (c.w_num, c.w_den, "w"),
            (c.p_num, c.p_den, "p"),
            (c.s_num, c.s_den, "s"),
            (c.g_num, c.g_den, "g"),
        ] {
            let ratio = n as f64 / d as f64;
            for cap in 0..=4096u64 {
                let code = (cap as f64 * ratio) as u64;
                let spec = cap * n / d;
                if code != spec {
                    return Err(format!("ratio {what}={n}/{d}: cap {cap}: f64 gives {code}, integer gives {spec}"));
                }
            }
        }
        Ok(())
    }
}

#[derive(Debug)]
pub struct Val {
    pub key: u64,
    pub ver: u64,
    pub w: usize,
    pub ph: bool,
    /// re-enter the cache from the destructor (C16)
    pub probe: bool,
}

impl Drop for Val {
    fn drop(&mut self) {
        if self.probe {
            reenter();
        }
    }
}

thread_local! {
    /// the cache user callbacks of this thread call back into, and the never-inserted keys (one per shard)
    static REENTRY: std::cell::RefCell<Option<(C, Vec<u64>)>> = const { std::cell::RefCell::new(None) };
}

/// Make the user callbacks running on this thread call back into `cache` (None: stop).
pub fn set_reentry(cache: Option<C>, shards: usize) {
    let v = cache.map(|c| (c, (0..shards as u64).map(|s| 900 + s).collect::<Vec<u64>>()));
    let _ = REENTRY.try_with(|c| *c.borrow_mut() = v);
}

/// What a re-entrant callback does: operations that need the write and the read lock of every shard but
/// change nothing (the keys are never inserted), so the observation of the enclosing call is unaffected.
/// If the enclosing call still holds a shard lock, this blocks for ever (the locks are not re-entrant).
pub fn reenter() {
    // (values may be dropped while the thread is being torn down: no re-entry then)
    let target = REENTRY.try_with(|c| c.try_borrow().ok().and_then(|g| g.clone())).ok().flatten();
    if let Some((cache, ghosts)) = target {
        for g in ghosts.iter() {
            let _ = cache.remove(g);
            let _ = cache.contains(g);
            let _ = cache.get(g);
        }
    }
}

#[derive(Clone, Default, Debug)]
pub struct TableHashBuilder {
    table: Arc<HashMap<u64, u64>>,
}

pub struct TableHasher {
    table: Arc<HashMap<u64, u64>>,
    v: u64,
}

impl Hasher for TableHasher {
    fn finish(&self) -> u64 {
        match self.table.get(&self.v) {
            Some(h) => *h,
            // never-inserted keys 900 + s hash to s (one per shard, for the re-entrant callbacks)
            None if self.v >= 900 && self.v < 1000 => self.v - 900,
            None => self.v,
        }
    }
    fn write(&mut self, bytes: &[u8]) {
        for b in bytes {
            self.v = (self.v << 8) | *b as u64;
        }
    }
    fn write_u64(&mut self, i: u64) {
        self.v = i;
    }
}

impl TableHashBuilder {
    pub fn new(table: Arc<HashMap<u64, u64>>) -> Self {
        Self { table }
    }
}

/// (key -> hash table, sorted key universe) of a configuration
pub fn table_of(cfg: &MemCfg) -> Result<(Arc<HashMap<u64, u64>>, Vec<u64>), String> {
    let mut table = HashMap::new();
    let mut keys = vec![];
    for (k, h) in cfg.hash.iter() {
        let k: u64 = k.parse().map_err(|_| "bad key in hash table".to_string())?;
        table.insert(k, *h);
        keys.push(k);
    }
    keys.sort();
    Ok((Arc::new(table), keys))
}

impl BuildHasher for TableHashBuilder {
    type Hasher = TableHasher;
    fn build_hasher(&self) -> TableHasher {
        TableHasher {
            table: self.table.clone(),
            v: 0,
        }
    }
}

type Ev = (String, u64, u64); // reason, key, version

#[derive(Default)]
struct Recorder {
    events: Mutex<Vec<Ev>>,
    piped: Mutex<Vec<u64>>,
}

struct Listener(Arc<Recorder>);

impl EventListener for Listener {
    type Key = u64;
    type Value = Val;
    fn on_leave(&self, reason: Event, key: &u64, value: &Val) {
        let r = match reason {
            Event::Evict => "evict",
            Event::Replace => "replace",
            Event::Remove => "remove",
            Event::Clear => "clear",
        };
        // a notification carrying another key's value is reported as a foreign version
        let ver = if value.key == *key { value.ver } else { 1_000_000 + value.ver };
        self.0.events.lock().push((r.to_string(), *key, ver));
        if value.probe {
            reenter();
        }
    }
}

struct RecPipe(Arc<Recorder>);

impl std::fmt::Debug for RecPipe {
    fn fmt(&self, f: &mut std::fmt::Formatter<'_>) -> std::fmt::Result {
        f.write_str("RecPipe")
    }
}

impl Pipe for RecPipe {
    type Key = u64;
    type Value = Val;
    type Properties = CacheProperties;
    fn is_enabled(&self) -> bool {
        true
    }
    fn send(&self, piece: Piece<u64, Val, CacheProperties>) {
        self.0.piped.lock().push(piece.value().ver);
        if piece.value().probe {
            reenter();
        }
    }
    fn flush(&self, pieces: Vec<Piece<u64, Val, CacheProperties>>) -> Pin<Box<dyn Future<Output = ()> + Send>> {
        let mut g = self.0.piped.lock();
        for p in pieces.iter() {
            g.push(p.value().ver);
        }
        Box::pin(std::future::ready(()))
    }
}

type C = Cache<u64, Val, TableHashBuilder, CacheProperties>;
type H = CacheEntry<u64, Val, TableHashBuilder, CacheProperties>;

pub struct MemRunner {
    cfg: MemCfg,
    table: Arc<HashMap<u64, u64>>,
    keys: Vec<u64>,
    cache: Option<C>,
    rec: Arc<Recorder>,
    next_ver: u64,
    /// held handles: (version, key at creation, weight at creation, handle)
    pub held: Vec<(u64, u64, usize, H)>,
    shadow: Option<Box<MemRunner>>,
    rt: Option<tokio::runtime::Runtime>,
}

pub fn eviction_config(cfg: &MemCfg) -> Result<EvictionConfig, String> {
    let c = &cfg.cfg;
    Ok(match cfg.algo.as_str() {
        "fifo" => FifoConfig::default().into(),
        "sieve" => SieveConfig.into(),
        "lru" => LruConfig {
            high_priority_pool_ratio: c.hi_num as f64 / c.hi_den as f64,
        }
        .into(),
        "lfu" => LfuConfig {
            window_capacity_ratio: c.w_num as f64 / c.w_den as f64,
            protected_capacity_ratio: c.p_num as f64 / c.p_den as f64,
            cmsketch_eps: 0.001,
            cmsketch_confidence: 0.9,
        }
        .into(),
        "s3fifo" => S3FifoConfig {
            small_queue_capacity_ratio: c.s_num as f64 / c.s_den as f64,
            ghost_queue_capacity_ratio: c.g_num as f64 / c.g_den as f64,
            small_to_main_freq_threshold: c.thr,
        }
        .into(),
        other => return Err(format!("unknown algo {other}")),
    })
}

impl MemRunner {
    pub fn new(cfg: &MemCfg) -> Result<Self, String> {
        let mut table = HashMap::new();
        let mut keys = vec![];
        for (k, h) in cfg.hash.iter() {
            let k: u64 = k.parse().map_err(|_| "bad key in hash table".to_string())?;
            table.insert(k, *h);
            keys.push(k);
        }
        keys.sort();
        Ok(Self {
            cfg: cfg.clone(),
            table: Arc::new(table),
            keys,
            cache: None,
            rec: Arc::new(Recorder::default()),
            next_ver: 1,
            held: vec![],
            shadow: if cfg.shadow_no_listener {
                let mut c2 = cfg.clone();
                c2.shadow_no_listener = false;
                c2.no_listener = true;
                Some(Box::new(MemRunner::new(&c2)?))
            } else {
                None
            },
            rt: if cfg.lookup_via_fetch {
                Some(tokio::runtime::Builder::new_current_thread().build().map_err(|e| format!("runtime: {e}"))?)
            } else {
                None
            },
        })
    }

    fn shard_of(&self, key: u64) -> u64 {
        self.table.get(&key).copied().unwrap_or(key) % self.cfg.shards as u64
    }

    fn init(&mut self, cap: usize) -> Result<(), String> {
        let ec = eviction_config(&self.cfg)?;
        let builder = CacheBuilder::new(cap)
            .with_shards(self.cfg.shards)
            .with_eviction_config(ec)
            .with_hash_builder(TableHashBuilder {
                table: self.table.clone(),
            })
            .with_weighter(|_: &u64, v: &Val| {
                if v.probe {
                    reenter();
                }
                v.w
            })
            .with_filter(|_: &u64, v: &Val| {
                if v.probe {
                    reenter();
                }
                !v.ph
            });
        let builder = if self.cfg.no_listener {
            builder
        } else {
            builder.with_event_listener(Arc::new(Listener(self.rec.clone())))
        };
        let cache: C = builder.build().with_pipe(Arc::new(RecPipe(self.rec.clone())));
        if self.cfg.reentrant {
            // one never-inserted key per shard: key 900 + s hashes to s
            let ghosts: Vec<u64> = (0..self.cfg.shards as u64).map(|s| 900 + s).collect();
            REENTRY.with(|c| *c.borrow_mut() = Some((cache.clone(), ghosts)));
        }
        self.cache = Some(cache);
        Ok(())
    }

    fn hold_or_drop(&mut self, hold: bool, h: H) {
        if hold {
            let ver = h.value().ver;
            let w = h.weight();
            self.held.push((ver, *h.key(), w, h));
        } else {
            drop(h);
        }
    }

    /// Execute one operation and return its result (`res` of the observation).
    pub fn apply(&mut self, op: &J) -> Result<i64, String> {
        let r = self.apply_main(op)?;
        if r != -9 {
            if let Some(sh) = self.shadow.as_mut() {
                let _ = sh.apply_main(op)?;
            }
        }
        Ok(r)
    }

    fn apply_main(&mut self, op: &J) -> Result<i64, String> {
        let name = op["name"].as_str().ok_or("op without name")?;
        let k = op.get("k").and_then(|x| x.as_u64()).unwrap_or(0);
        let hold = op.get("hold").and_then(|x| x.as_bool()).unwrap_or(false);
        if name == "init" {
            self.init(op["cap"].as_u64().ok_or("init without cap")? as usize)?;
            return Ok(0);
        }
        if name == "clone" || name == "drop" {
            let r = op["r"].as_u64().ok_or("handle op without r")?;
            // the script refers to a handle the specification says is held; if the implementation did not hand it
            // out (an earlier lookup missed where the specification expects a hit) this step observes -9: the
            // divergence itself was already recorded at the lookup (every prefix of a script is a script)
            let Some(pos) = self.held.iter().position(|(v, ..)| *v == r) else {
                if let Some(sh) = self.shadow.as_mut() {
                    let _ = sh.apply(op);
                }
                return Ok(-9);
            };
            if name == "clone" {
                let (v, kk, w, h) = &self.held[pos];
                let c = (*v, *kk, *w, h.clone());
                self.held.push(c);
                return Ok(r as i64);
            } else {
                let x = self.held.remove(pos);
                drop(x);
                return Ok(0);
            }
        }
        if name == "drop_cache" {
            self.cache = None;
            return Ok(0);
        }
        let cache = self.cache.as_ref().ok_or("cache not initialised")?.clone();
        let encode = |v: &Val, want: u64| -> i64 {
            if v.key == want { v.ver as i64 } else { 1_000_000 + v.ver as i64 }
        };
        Ok(match name {
            "insert" => {
                let ver = self.next_ver;
                self.next_ver += 1;
                let hint = match op["hint"].as_str().unwrap_or("normal") {
                    "low" => Hint::Low,
                    _ => Hint::Normal,
                };
                let val = Val {
                    key: k,
                    ver,
                    w: op["w"].as_u64().ok_or("insert without w")? as usize,
                    ph: op["ph"].as_bool().unwrap_or(false),
                    probe: self.cfg.reentrant,
                };
                let h = cache.insert_with_properties(k, val, CacheProperties::default().with_hint(hint));
                let res = encode(h.value(), k);
                self.hold_or_drop(hold, h);
                res
            }
            "get" if self.cfg.lookup_via_fetch && cache.contains(&k) => {
                // the hit path of get_or_fetch (the origin is never asked for a resident key; if it is, its
                // answer is recognisable: version 0)
                let rt = self.rt.as_ref().ok_or("no runtime")?;
                let r = rt.block_on(async {
                    cache
                        .get_or_fetch(&k, || async move {
                            Ok::<_, anyhow::Error>(Val { key: k, ver: 0, w: 1, ph: false, probe: false })
                        })
                        .await
                });
                match r {
                    Err(_) => -1,
                    Ok(h) => {
                        let res = encode(h.value(), k);
                        self.hold_or_drop(hold, h);
                        res
                    }
                }
            }
            "get" => match cache.get(&k) {
                None => 0,
                Some(h) => {
                    let res = encode(h.value(), k);
                    self.hold_or_drop(hold, h);
                    res
                }
            },
            "touch" => cache.touch(&k) as i64,
            "contains" => cache.contains(&k) as i64,
            "remove" => match cache.remove(&k) {
                None => 0,
                Some(h) => {
                    let res = encode(h.value(), k);
                    self.hold_or_drop(hold, h);
                    res
                }
            },
            "clear" => {
                cache.clear();
                0
            }
            "resize" => {
                cache
                    .resize(op["cap"].as_u64().ok_or("resize without cap")? as usize)
                    .map_err(|e| format!("resize failed: {e}"))?;
                0
            }
            "evict_all" => {
                cache.evict_all();
                0
            }
            "flush" => {
                let mut fut = Box::pin(cache.flush());
                let mut cx = Context::from_waker(Waker::noop());
                match fut.as_mut().poll(&mut cx) {
                    Poll::Ready(()) => 0,
                    Poll::Pending => return Err("flush pending with a ready pipe".into()),
                }
            }
            other => return Err(format!("unknown op {other}")),
        })
    }

    /// The projection `Obs` of MC_MemCache.tla, through the public API.
    pub fn observe(&mut self, op: &J, res: i64) -> J {
        let name = op["name"].as_str().unwrap_or("");
        let mut evs: Vec<Ev> = std::mem::take(&mut *self.rec.events.lock());
        let pp: Vec<u64> = std::mem::take(&mut *self.rec.piped.lock());
        // Notifications of clear come in hash-table order and those of resize from one thread per
        // shard: the specification fixes a canonical order for both (MemCache.tla, Clear / Resize).
        if name == "clear" || name == "drop_cache" {
            evs.sort_by_key(|e| e.2);
        }
        let mut pp = pp;
        if name == "resize" && self.cfg.shards > 1 {
            let so = |k: u64| self.shard_of(k);
            evs.sort_by_key(|e| so(e.1));
            // piped carries versions only; order them like the evict events
            let order: Vec<u64> = evs.iter().filter(|e| e.0 == "evict").map(|e| e.2).collect();
            let mut sorted = vec![];
            for v in order {
                if let Some(p) = pp.iter().position(|x| *x == v) {
                    sorted.push(pp.remove(p));
                }
            }
            sorted.extend(pp.drain(..));
            pp = sorted;
        }
        let (u, n, pr) = match self.cache.as_ref() {
            Some(c) => (
                c.usage(),
                c.entries(),
                self.keys.iter().copied().filter(|k| c.contains(k)).collect::<Vec<_>>(),
            ),
            None => (0, 0, vec![]),
        };
        if let Some(sh) = self.shadow.as_mut() {
            // what a cache WITHOUT listener handed to the pipe for the same operations (same multiset in another
            // order = the same: the order of a multi-shard resize is canonicalised from the listener events)
            let so = sh.observe(op, res);
            let spp: Vec<u64> = so["pp"].as_array().map(|a| a.iter().filter_map(|x| x.as_u64()).collect()).unwrap_or_default();
            let (mut a, mut b) = (spp.clone(), pp.clone());
            a.sort();
            b.sort();
            if a != b {
                pp = spp;
            }
        }
        let mut hs: BTreeMap<u64, (usize, u8)> = BTreeMap::new();
        for (ver, key, w, h) in self.held.iter() {
            let intact = h.value().ver == *ver && h.key() == key && h.weight() == *w && h.value().key == *key;
            let outdated = if !intact { 2 } else { h.is_outdated() as u8 };
            hs.insert(*ver, (h.refs(), outdated));
        }
        json!({
            "res": res,
            "ev": evs.iter().map(|e| json!([e.0, e.2])).collect::<Vec<_>>(),
            "pp": pp,
            "u": u,
            "n": n,
            "pr": pr,
            "hs": hs.iter().map(|(v, (r, o))| json!([v, r, o])).collect::<Vec<_>>(),
        })
    }

    /// Event keys for foreign-value detection: every notification must carry the key its version
    /// was inserted under.
    pub fn finish(self) {
        drop(self.held);
        drop(self.cache);
        let _ = REENTRY.try_with(|c| *c.borrow_mut() = None);
    }
}

impl crate::Engine for MemRunner {
    fn step(&mut self, op: &J) -> Result<J, String> {
        let res = self.apply(op)?;
        Ok(self.observe(op, res))
    }
}

pub fn nontrivial(e: &J) -> bool {
    e["ev"].as_array().map(|a| !a.is_empty()).unwrap_or(false) || e["hs"].as_array().map(|a| !a.is_empty()).unwrap_or(false)
}

/// Parameters of the random driver (`harness mem-random`): the same alphabet as MC_MemCache's `Op`.
#[derive(Clone, Debug, Deserialize)]
pub struct RandParams {
    pub keys: Vec<u64>,
    pub weights: Vec<u64>,
    pub hints: Vec<String>,
    pub phantoms: Vec<bool>,
    pub caps: Vec<u64>,
    pub init_caps: Vec<u64>,
    pub ops: Vec<String>,
    pub max_held: usize,
    pub max_ins: usize,
    pub len: usize,
    pub num: usize,
    /// a key used only by the closing phase of a run (drop every handle, then insert this key with a
    /// weight equal to the whole capacity: with no handle outstanding the cache must come back within
    /// capacity, so a record that stayed pinned or unaccounted shows)
    #[serde(default)]
    pub reserve: Option<u64>,
}

pub struct Lcg(pub u64);

impl Lcg {
    pub fn next(&mut self) -> u64 {
        // splitmix64
        self.0 = self.0.wrapping_add(0x9E3779B97F4A7C15);
        let mut z = self.0;
        z = (z ^ (z >> 30)).wrapping_mul(0xBF58476D1CE4E5B9);
        z = (z ^ (z >> 27)).wrapping_mul(0x94D049BB133111EB);
        z ^ (z >> 31)
    }
    pub fn below(&mut self, n: usize) -> usize {
        (self.next() % n.max(1) as u64) as usize
    }
    pub fn pick<'a, T>(&mut self, v: &'a [T]) -> &'a T {
        &v[self.below(v.len())]
    }
}

/// Run one random behaviour; returns the observed trace ([op, obs] per step).
pub fn random_run(cfg: &MemCfg, prm: &RandParams, rng: &mut Lcg) -> Result<Vec<J>, String> {
    let mut runner = MemRunner::new(cfg)?;
    let mut trace = vec![];
    let mut step = |runner: &mut MemRunner, op: J| -> Result<(), String> {
        let res = runner.apply(&op)?;
        let obs = runner.observe(&op, res);
        trace.push(json!({"op": op, "obs": obs}));
        Ok(())
    };
    let mut cap = *rng.pick(&prm.init_caps);
    step(&mut runner, json!({"name": "init", "cap": cap}))?;
    let mut inserts = 0usize;
    let mut alive = true;
    for _ in 0..prm.len {
        if !alive {
            break;
        }
        // draw until an enabled operation comes up
        let op = loop {
            let name = rng.pick(&prm.ops).clone();
            let can_hold = runner.held.len() < prm.max_held;
            let hold = can_hold && rng.below(2) == 0;
            let k = *rng.pick(&prm.keys);
            match name.as_str() {
                "insert" if inserts < prm.max_ins => {
                    inserts += 1;
                    break json!({"name": "insert", "k": k, "w": rng.pick(&prm.weights), "hint": rng.pick(&prm.hints),
                        "ph": rng.pick(&prm.phantoms), "hold": hold});
                }
                "get" | "remove" => break json!({"name": name, "k": k, "hold": hold}),
                "touch" | "contains" => break json!({"name": name, "k": k}),
                "clone" if can_hold && !runner.held.is_empty() => {
                    let i = rng.below(runner.held.len());
                    break json!({"name": "clone", "r": runner.held[i].0});
                }
                "drop" if !runner.held.is_empty() => {
                    let i = rng.below(runner.held.len());
                    break json!({"name": "drop", "r": runner.held[i].0});
                }
                "clear" | "evict_all" | "flush" => break json!({"name": name}),
                "resize" if !prm.caps.is_empty() => {
                    cap = *rng.pick(&prm.caps);
                    break json!({"name": "resize", "cap": cap});
                }
                "drop_cache" if runner.held.is_empty() && rng.below(4) == 0 => {
                    alive = false;
                    break json!({"name": "drop_cache"});
                }
                _ => continue,
            }
        };
        step(&mut runner, op)?;
    }
    if alive {
        if let Some(rk) = prm.reserve {
            while let Some(v) = runner.held.first().map(|h| h.0) {
                step(&mut runner, json!({"name": "drop", "r": v}))?;
            }
            if cfg.shards == 1 && cap >= 1 {
                step(&mut runner, json!({"name": "insert", "k": rk, "w": cap, "hint": "normal", "ph": false, "hold": false}))?;
                step(&mut runner, json!({"name": "insert", "k": rk, "w": 1, "hint": "normal", "ph": false, "hold": false}))?;
            }
        }
    }
    runner.finish();
    Ok(trace)
}
