//! A recording, gated `IoEngine` for the disk tier: the real pread/pwrite on the real partition
//! files, but every operation is logged (with a copy of the bytes written) and, in hold mode,
//! completes only when the driver releases it. Completion order = release order = the order in
//! which effects reach the files. Operations complete synchronously inside `poll`, so a
//! current-thread runtime turned by the driver is fully deterministic.

use std::{
    fs::File,
    future::Future,
    mem::ManuallyDrop,
    os::unix::{fs::FileExt, io::FromRawFd},
    pin::Pin,
    sync::Arc,
    task::{Context, Poll, Waker},
};

use foyer_common::error::{Error, ErrorKind, Result};
use foyer_storage::{
    IoEngine, IoEngineConfig, IoHandle,
    verif::{IoB, IoBuf, IoBufMut, IoEngineBuildContext, Partition},
};
use parking_lot::Mutex;

#[derive(Clone, Debug)]
pub struct LogEntry {
    pub id: usize,
    pub write: bool,
    pub partition: u32,
    pub offset: u64,
    pub len: usize,
    /// bytes written (writes only)
    pub data: Option<Arc<Vec<u8>>>,
    pub released: bool,
    pub done: bool,
    pub failed: bool,
}

#[derive(Default)]
pub struct GateState {
    pub hold_writes: bool,
    pub hold_reads: bool,
    pub log: Vec<LogEntry>,
    wakers: Vec<Option<Waker>>,
    /// fail the next n reads / writes with an io error (fault injection)
    pub fail_reads: usize,
    pub fail_writes: usize,
}

#[derive(Clone, Default)]
pub struct Gate(pub Arc<Mutex<GateState>>);

impl std::fmt::Debug for Gate {
    fn fmt(&self, f: &mut std::fmt::Formatter<'_>) -> std::fmt::Result {
        f.write_str("Gate")
    }
}

impl Gate {
    pub fn set_hold(&self, writes: bool, reads: bool) {
        let mut g = self.0.lock();
        g.hold_writes = writes;
        g.hold_reads = reads;
    }

    /// ids of operations issued and not yet released
    pub fn pending(&self) -> Vec<usize> {
        self.0.lock().log.iter().filter(|e| !e.released).map(|e| e.id).collect()
    }

    pub fn release(&self, id: usize) {
        let w = {
            let mut g = self.0.lock();
            g.log[id].released = true;
            g.wakers[id].take()
        };
        if let Some(w) = w {
            w.wake();
        }
    }

    pub fn release_all(&self) {
        for id in self.pending() {
            self.release(id);
        }
    }

    pub fn len(&self) -> usize {
        self.0.lock().log.len()
    }

    pub fn done_count(&self) -> usize {
        self.0.lock().log.iter().filter(|e| e.done).count()
    }

    pub fn entries_from(&self, from: usize) -> Vec<LogEntry> {
        self.0.lock().log[from..].to_vec()
    }
}

struct GateEngine {
    gate: Gate,
}

impl std::fmt::Debug for GateEngine {
    fn fmt(&self, f: &mut std::fmt::Formatter<'_>) -> std::fmt::Result {
        f.write_str("GateEngine")
    }
}

enum Buf {
    R(Box<dyn IoBufMut>),
    W(Box<dyn IoBuf>),
}

struct IoFut {
    gate: Gate,
    id: usize,
    fd: i32,
    offset: u64,
    buf: Option<Buf>,
}

// the buffers are Send + Sync (IoB: Send + Sync)
unsafe impl Send for IoFut {}

impl Future for IoFut {
    type Output = (Box<dyn IoB>, Result<()>);

    fn poll(mut self: Pin<&mut Self>, cx: &mut Context<'_>) -> Poll<Self::Output> {
        let id = self.id;
        let fail = {
            let mut g = self.gate.0.lock();
            if !g.log[id].released {
                g.wakers[id] = Some(cx.waker().clone());
                return Poll::Pending;
            }
            let w = g.log[id].write;
            if w && g.fail_writes > 0 {
                g.fail_writes -= 1;
                true
            } else if !w && g.fail_reads > 0 {
                g.fail_reads -= 1;
                true
            } else {
                false
            }
        };
        let file = ManuallyDrop::new(unsafe { File::from_raw_fd(self.fd) });
        let offset = self.offset;
        let (iob, res): (Box<dyn IoB>, std::io::Result<()>) = match self.buf.take().expect("polled after completion") {
            Buf::W(b) => {
                let r = if fail { Err(std::io::Error::other("injected write error")) } else { file.write_all_at(&b, offset) };
                (b.into_iob(), r)
            }
            Buf::R(mut b) => {
                let r = if fail { Err(std::io::Error::other("injected read error")) } else { file.read_exact_at(&mut b, offset) };
                (b.into_iob(), r)
            }
        };
        {
            let mut g = self.gate.0.lock();
            g.log[id].done = true;
            g.log[id].failed = res.is_err();
        }
        Poll::Ready((iob, res.map_err(|e| Error::new(ErrorKind::Io, "gate io error").with_source(e))))
    }
}

impl GateEngine {
    fn submit(&self, buf: Buf, partition: &dyn Partition, offset: u64) -> IoHandle {
        let (raw, off) = partition.translate(offset);
        let (write, len, data) = match &buf {
            Buf::W(b) => (true, b.len(), Some(Arc::new(b.to_vec()))),
            Buf::R(b) => (false, b.len(), None),
        };
        let id = {
            let mut g = self.gate.0.lock();
            let id = g.log.len();
            let released = if write { !g.hold_writes } else { !g.hold_reads };
            g.log.push(LogEntry {
                id,
                write,
                partition: partition.id(),
                offset,
                len,
                data,
                released,
                done: false,
                failed: false,
            });
            g.wakers.push(None);
            id
        };
        let fut: Pin<Box<dyn Future<Output = (Box<dyn IoB>, Result<()>)> + Send>> = Box::pin(IoFut {
            gate: self.gate.clone(),
            id,
            fd: raw.0,
            offset: off,
            buf: Some(buf),
        });
        IoHandle::from(fut)
    }
}

impl IoEngine for GateEngine {
    fn read(&self, buf: Box<dyn IoBufMut>, partition: &dyn Partition, offset: u64) -> IoHandle {
        self.submit(Buf::R(buf), partition, offset)
    }
    fn write(&self, buf: Box<dyn IoBuf>, partition: &dyn Partition, offset: u64) -> IoHandle {
        self.submit(Buf::W(buf), partition, offset)
    }
}

#[derive(Debug)]
pub struct GateEngineConfig {
    pub gate: Gate,
}

impl IoEngineConfig for GateEngineConfig {
    fn build(
        self: Box<Self>,
        _: IoEngineBuildContext,
    ) -> Pin<Box<dyn Future<Output = Result<Arc<dyn IoEngine>>> + Send + 'static>> {
        let gate = self.gate.clone();
        Box::pin(async move { Ok(Arc::new(GateEngine { gate }) as Arc<dyn IoEngine>) })
    }
}

impl From<GateEngineConfig> for Box<dyn IoEngineConfig> {
    fn from(c: GateEngineConfig) -> Self {
        Box::new(c)
    }
}
