//! Forced thread schedules for the handle protocol of the memory cache (spec/PinRace.tla,
//! Trace_PinRace.tla, C18).
//!
//! No hook is needed: the shard lock is held from outside through a *blocker*, a lookup of a key whose
//! equality test (which the index probe calls under the shard lock) waits for a gate.  While the lock is
//! held the driver starts the operations of the script one by one, each in its own thread: the lock-free
//! first step of each (refs.fetch_sub of a drop, refs.fetch_add of a clone) happens at once, in start order,
//! and the locked step queues on the shard lock.  Then the gate is opened, the threads are joined, and
//! inserts of other keys push every unpinned record out.

use std::{
    hash::{BuildHasher, Hash, Hasher},
    io::Write,
    sync::{
        Arc, Condvar, Mutex,
        atomic::{AtomicBool, Ordering},
    },
    time::Duration,
};

use foyer_common::event::{Event, EventListener};
use foyer_memory::{Cache, CacheBuilder, CacheEntry, CacheProperties, EvictionConfig, LruConfig};
use serde_json::{Value as J, json};

const BLOCK: u64 = u64::MAX;
const KEY: u64 = 1;

#[derive(Default)]
struct Gate {
    closed: Mutex<bool>,
    cv: Condvar,
    blocker_inside: AtomicBool,
}

#[derive(Clone)]
struct RKey {
    id: u64,
    gate: Arc<Gate>,
}

impl std::fmt::Debug for RKey {
    fn fmt(&self, f: &mut std::fmt::Formatter<'_>) -> std::fmt::Result {
        write!(f, "RKey({})", self.id)
    }
}

impl PartialEq for RKey {
    fn eq(&self, other: &Self) -> bool {
        if self.id == BLOCK || other.id == BLOCK {
            // called by the index probe of the blocker's lookup, i.e. under the shard lock
            self.gate.blocker_inside.store(true, Ordering::SeqCst);
            let mut c = self.gate.closed.lock().unwrap();
            while *c {
                c = self.gate.cv.wait(c).unwrap();
            }
        }
        self.id == other.id
    }
}
impl Eq for RKey {}
impl Hash for RKey {
    fn hash<H: Hasher>(&self, state: &mut H) {
        state.write_u64(self.id);
    }
}

/// every key hashes to 0: one shard, and the blocker's probe compares with the resident record
#[derive(Clone, Default, Debug)]
struct ZeroHash;
struct ZeroHasher;
impl Hasher for ZeroHasher {
    fn finish(&self) -> u64 {
        0
    }
    fn write(&mut self, _: &[u8]) {}
}
impl BuildHasher for ZeroHash {
    type Hasher = ZeroHasher;
    fn build_hasher(&self) -> ZeroHasher {
        ZeroHasher
    }
}

type C = Cache<RKey, u64, ZeroHash, CacheProperties>;
type H = CacheEntry<RKey, u64, ZeroHash, CacheProperties>;

struct Listener(Arc<Mutex<Vec<(u8, u64)>>>);
impl EventListener for Listener {
    type Key = RKey;
    type Value = u64;
    fn on_leave(&self, reason: Event, key: &RKey, _: &u64) {
        let r = match reason {
            Event::Evict => 0,
            Event::Replace => 1,
            Event::Remove => 2,
            Event::Clear => 3,
        };
        self.0.lock().unwrap().push((r, key.id));
    }
}

/// One run: `owners` = threads that hold a looked-up handle at the start; `starts` = [{t, op, from}].
pub fn run_one(owners: &[u64], starts: &[J], settle_ms: u64) -> Result<Vec<J>, String> {
    let gate = Arc::new(Gate::default());
    let key = |id: u64| RKey { id, gate: gate.clone() };
    let left = Arc::new(Mutex::new(vec![]));
    let cache: C = CacheBuilder::new(3)
        .with_shards(1)
        .with_eviction_config(EvictionConfig::Lru(LruConfig::default()))
        .with_hash_builder(ZeroHash)
        .with_event_listener(Arc::new(Listener(left.clone())))
        .build();
    drop(cache.insert(key(KEY), 1));
    let mut out = vec![json!({"e": "init", "owners": owners})];
    // handles by thread id
    let mut handles: std::collections::BTreeMap<u64, H> = Default::default();
    for t in owners {
        handles.insert(*t, cache.get(&key(KEY)).ok_or("initial lookup missed")?);
    }
    // the blocker takes the shard lock and waits inside the equality test
    *gate.closed.lock().unwrap() = true;
    let blocker = {
        let cache = cache.clone();
        let k = key(BLOCK);
        std::thread::spawn(move || {
            let _ = cache.get(&k);
        })
    };
    let t0 = std::time::Instant::now();
    while !gate.blocker_inside.load(Ordering::SeqCst) {
        if t0.elapsed() > Duration::from_secs(10) {
            return Err("the blocker never reached the equality test".into());
        }
        std::thread::sleep(Duration::from_millis(1));
    }
    let mut threads: Vec<(u64, String, std::thread::JoinHandle<Option<H>>)> = vec![];
    for s in starts {
        let t = s["t"].as_u64().ok_or("start without t")?;
        let op = s["op"].as_str().ok_or("start without op")?.to_string();
        let from = s["from"].as_u64().unwrap_or(0);
        out.push(json!({"e": "start", "t": t, "op": op, "from": from}));
        let cache = cache.clone();
        let k = key(KEY);
        let jh = match op.as_str() {
            "drop" => {
                let h = handles.remove(&t).ok_or("drop by a thread without a handle")?;
                std::thread::spawn(move || {
                    drop(h);
                    None
                })
            }
            "clone" => {
                // lock-free: done by the driver right away on behalf of thread t
                let h = handles.get(&from).ok_or("clone from a thread without a handle")?.clone();
                handles.insert(t, h);
                std::thread::spawn(|| None)
            }
            "get" => std::thread::spawn(move || cache.get(&k)),
            "remove" => std::thread::spawn(move || cache.remove(&k)),
            other => return Err(format!("unknown op {other}")),
        };
        threads.push((t, op, jh));
        // let the thread reach the lock queue (or finish its lock-free step)
        std::thread::sleep(Duration::from_millis(settle_ms));
    }
    out.push(json!({"e": "unblock"}));
    {
        *gate.closed.lock().unwrap() = false;
        gate.cv.notify_all();
    }
    blocker.join().map_err(|_| "blocker panicked")?;
    let mut hits = vec![];
    let mut lookers = vec![];
    for (t, op, jh) in threads {
        let r = jh.join().map_err(|_| format!("thread {t} panicked"))?;
        if let Some(h) = r {
            if op == "get" {
                hits.push(t);
                lookers.push(t);
            }
            handles.insert(t, h);
        }
    }
    out.push(json!({"e": "joined", "hits": hits}));
    // pressure: every unpinned record is pushed out
    left.lock().unwrap().clear();
    for i in 0..6u64 {
        drop(cache.insert(key(100 + i), 0));
    }
    let evicted = left.lock().unwrap().iter().any(|(r, k)| *r == 0 && *k == KEY);
    let holders: Vec<u64> = handles.keys().copied().collect();
    // every handle must still show what it showed
    let intact = handles.values().all(|h| h.key().id == KEY && *h.value() == 1);
    out.push(json!({"e": "pressure", "evicted": evicted, "holders": holders, "lookers": lookers, "intact": intact,
                    "resident": cache.contains(&key(KEY))}));
    drop(handles);
    Ok(out)
}

pub fn run(scripts: &[J], repeat: usize, settle_ms: u64, w: &mut impl Write) -> Result<(usize, usize), String> {
    let mut n = 0;
    let mut events = 0;
    for s in scripts {
        let owners: Vec<u64> = s["owners"].as_array().ok_or("script without owners")?.iter().filter_map(|x| x.as_u64()).collect();
        let starts = s["starts"].as_array().ok_or("script without starts")?;
        for _ in 0..repeat {
            let evs = run_one(&owners, starts, settle_ms)?;
            for (j, e) in evs.iter().enumerate() {
                let mut e = e.clone();
                e["script"] = json!(n);
                e["step"] = json!(j);
                e["mis"] = json!(false);
                writeln!(w, "{e}").map_err(|e| format!("write: {e}"))?;
            }
            events += evs.len();
            n += 1;
        }
    }
    Ok((n, events))
}
