//! C08 driver (spec/Codec.tla, Trace_Codec.tla): (a) `Code::encode` / `decode` of every built-in type at
//! boundary and random values into destinations of n-1, n, n+1 bytes; (b) batches of entries of chosen
//! encoded sizes pushed into an empty flusher buffer of a real store (flush held), then released: which
//! were written, the lengths their headers record, and whether a load returns the original bit for bit.

use std::io::Write;

use bytes::Bytes;
use foyer::{Code, ErrorKind};
use serde_json::{Value as J, json};

use crate::{
    hybrid::{HybridCfg, HybridRunner, PAGE},
    mem::{Lcg, MemCfg},
};

/// A reader that hands out at most `chunk` bytes per `read` call, as a streaming decompressor does.
struct Chunked<'a> {
    data: &'a [u8],
    chunk: usize,
}

impl std::io::Read for Chunked<'_> {
    fn read(&mut self, buf: &mut [u8]) -> std::io::Result<usize> {
        let n = buf.len().min(self.chunk).min(self.data.len());
        buf[..n].copy_from_slice(&self.data[..n]);
        self.data = &self.data[n..];
        Ok(n)
    }
}

fn enc_case<T: Code + PartialEq + std::fmt::Debug>(ty: &str, v: &T, bits_equal: impl Fn(&T, &T) -> bool, out: &mut Vec<J>) {
    let mut full = vec![];
    if v.encode(&mut full).is_err() {
        out.push(json!({"a": "enc", "ty": ty, "n": 0, "d": 0, "ok": false, "limit": false, "w": 0, "rt": false}));
        return;
    }
    let n = full.len();
    let mut rt = match T::decode(&mut &full[..]) {
        Ok(x) => bits_equal(&x, v),
        Err(_) => false,
    };
    // the same bytes through readers that return short reads (what a decompressor in front of the decoder does)
    for chunk in [1usize, 7, 4096, 32 * 1024] {
        if chunk >= n && chunk != 1 {
            continue;
        }
        rt = rt
            && match T::decode(&mut Chunked { data: &full[..], chunk }) {
                Ok(x) => bits_equal(&x, v),
                Err(_) => false,
            };
    }
    let mut ds = vec![n, n + 1, n + 7];
    if n > 0 {
        ds.push(n - 1);
        ds.push(0);
        ds.push(n / 2);
    }
    for d in ds {
        let mut buf = vec![0xAAu8; d];
        let (ok, limit, w) = {
            let mut cur: &mut [u8] = &mut buf[..];
            let r = v.encode(&mut cur);
            let w = d - cur.len();
            match r {
                Ok(()) => (true, false, w),
                Err(e) => (false, e.kind() == ErrorKind::BufferSizeLimit, w),
            }
        };
        // on success the destination holds exactly the canonical encoding
        let same = ok && buf[..w] == full[..];
        out.push(json!({"a": "enc", "ty": ty, "n": n, "d": d, "ok": ok, "limit": limit, "w": w, "rt": rt && (!ok || same)}));
    }
}

pub fn type_cases(seed: u64, random_per_type: usize) -> Vec<J> {
    let mut out = vec![];
    let mut rng = Lcg(seed);
    macro_rules! ints {
        ($($t:ty),*) => {$(
            let mut vals: Vec<$t> = vec![0 as $t, 1 as $t, <$t>::MIN, <$t>::MAX, (<$t>::MAX / 2) as $t];
            for _ in 0..random_per_type { vals.push(rng.next() as $t); }
            for v in vals { enc_case(stringify!($t), &v, |a, b| a == b, &mut out); }
        )*};
    }
    ints!(u8, u16, u32, u64, u128, usize, i8, i16, i32, i64, i128, isize);
    let mut f32s = vec![0.0f32, -0.0, 1.5, f32::MIN, f32::MAX, f32::INFINITY, f32::NEG_INFINITY, f32::NAN, f32::MIN_POSITIVE];
    let mut f64s = vec![0.0f64, -0.0, 1.5, f64::MIN, f64::MAX, f64::INFINITY, f64::NEG_INFINITY, f64::NAN, f64::MIN_POSITIVE];
    for _ in 0..random_per_type {
        f32s.push(f32::from_bits(rng.next() as u32));
        f64s.push(f64::from_bits(rng.next()));
    }
    for v in f32s {
        enc_case("f32", &v, |a, b| a.to_bits() == b.to_bits(), &mut out);
    }
    for v in f64s {
        enc_case("f64", &v, |a, b| a.to_bits() == b.to_bits(), &mut out);
    }
    for v in [true, false] {
        enc_case("bool", &v, |a, b| a == b, &mut out);
    }
    let mut strings = vec![String::new(), "a".to_string(), "héllo wörld ✓ 日本語".to_string(), "x".repeat(4095), "y".repeat(4096), "\u{10FFFF}".repeat(3)];
    let mut blobs: Vec<Vec<u8>> = vec![vec![], vec![0], vec![0xFF; 1], vec![7; 4095], vec![7; 4096], vec![7; 4097]];
    for _ in 0..random_per_type {
        let n = rng.below(300);
        strings.push((0..n).map(|_| char::from_u32(0x20 + (rng.next() % 0x2000) as u32).unwrap_or('?')).collect());
        blobs.push((0..rng.below(9000)).map(|_| rng.next() as u8).collect());
    }
    for v in strings {
        enc_case("String", &v, |a, b| a == b, &mut out);
    }
    for v in blobs {
        enc_case("Vec<u8>", &v, |a, b| a == b, &mut out);
        enc_case("Bytes", &Bytes::from(v), |a, b| a == b, &mut out);
    }
    out
}

/// One batch through the real flusher buffer. `pads[i]` = padding of entry i (its encoded value is 20 + pad
/// bytes, its key 8 bytes). Keys 1..n are distinct so every accepted entry stays loadable.
pub fn batch_case(mcfg: &MemCfg, hcfg: &HybridCfg, pads: &[usize], compressed: bool) -> Result<J, String> {
    let mut r = HybridRunner::new(mcfg, hcfg)?;
    r.apply(&json!({"a": "init"}))?;
    r.apply(&json!({"a": "hold"}))?;
    for (i, pad) in pads.iter().enumerate() {
        r.apply(&json!({"a": "ins", "k": i as u64 + 1, "pad": pad}))?;
    }
    r.apply(&json!({"a": "unhold"}))?;
    r.wait_flush()?;
    r.apply(&json!({"a": "evict_all"}))?;
    let written = r.written_entries();
    let mut obs = vec![];
    for (i, pad) in pads.iter().enumerate() {
        let k = i as u64 + 1;
        let ver = i as u64 + 1;
        let w = written.iter().find(|e| e.0 == k && (e.1 == ver || e.1 == u64::MAX));
        let (rt, miss) = r.load_exact(k, ver, *pad);
        obs.push(json!([w.is_some() as u8, w.map(|e| e.4).unwrap_or(0), w.map(|e| e.5).unwrap_or(0), rt as u8, miss as u8]));
    }
    let room = hcfg.buffer_pages.unwrap_or(8 * hcfg.block_pages) * PAGE;
    let max = (hcfg.block_pages - 1) * PAGE;
    Ok(json!({"a": "batch", "room": room, "max": max, "lens": pads.iter().map(|p| 28 + p).collect::<Vec<_>>(),
              "obs": obs, "kl": 8, "compressed": compressed}))
}

pub fn write_events(w: &mut impl Write, evs: &[J], script: usize) -> std::io::Result<()> {
    for (j, e) in evs.iter().enumerate() {
        let mut e = e.clone();
        e["script"] = json!(script);
        e["step"] = json!(j);
        e["mis"] = json!(false);
        writeln!(w, "{e}")?;
    }
    Ok(())
}
