//! Conformance harness binding the TLA+ specifications in /verif/spec to the foyer implementation.
//!
//! Exit codes: 0 = ran to completion (verdicts are in the output files; the `check` driver decides),
//! 2 = tool error. This binary never prints VIOLATION lines itself.

mod codec;
mod conc;
mod disk;
mod gate;
mod hybrid;
mod inflight;
mod mem;
mod pinrace;

use std::{
    io::{BufRead, Write},
    panic::{AssertUnwindSafe, catch_unwind},
};

use serde_json::{Value as J, json};

fn arg(args: &[String], name: &str) -> Option<String> {
    args.iter().position(|a| a == name).and_then(|i| args.get(i + 1).cloned())
}

fn die(msg: impl AsRef<str>) -> ! {
    eprintln!("harness: tool error: {}", msg.as_ref());
    std::process::exit(2);
}

/// Parse one line of TLC output produced by `PrintT(ToJson(..))`: a JSON string literal whose
/// content is JSON. Lines that are not such literals (TLC chatter) yield None.
fn parse_tlc_json_line(line: &str) -> Option<J> {
    let t = line.trim();
    if t.starts_with('"') {
        let inner: String = serde_json::from_str(t).ok()?;
        serde_json::from_str(&inner).ok()
    } else if t.starts_with('{') {
        serde_json::from_str(t).ok()
    } else {
        None
    }
}

/// One implementation object driven by script operations; `step` executes the operation and returns
/// the observation (the projection the specification defines) after it.
pub trait Engine {
    fn step(&mut self, op: &J) -> Result<J, String>;
}

/// Which top-level components of an observation differ.
fn diff_fields(exp: &J, got: &J) -> Vec<String> {
    let mut v = vec![];
    if let (Some(a), Some(b)) = (exp.as_object(), got.as_object()) {
        for (k, x) in a {
            if b.get(k) != Some(x) {
                v.push(k.clone());
            }
        }
    }
    v
}

struct ScriptOutcome {
    /// observed [op, obs] per step
    trace: Vec<J>,
    /// None = as expected
    mismatch: Option<J>,
    panicked: bool,
    nontrivial: bool,
}

fn run_script<E: Engine>(
    make: &(dyn Fn() -> Result<E, String> + Sync),
    nontrivial_fn: fn(&J) -> bool,
    script: &J,
) -> Result<ScriptOutcome, String> {
    // two script shapes: {"ops": [...], "obs": expected-after-last-op} (one per edge) and
    // {"steps": [{"op":..,"obs":..}, ...]} (one per behaviour, every step compared)
    let (ops, exps): (Vec<J>, Vec<J>) = if let Some(steps) = script.get("steps").and_then(|s| s.as_array()) {
        (
            steps.iter().map(|s| s["op"].clone()).collect(),
            steps.iter().map(|s| s["obs"].clone()).collect(),
        )
    } else {
        let ops = script["ops"].as_array().ok_or("script without ops")?.clone();
        let mut exps = vec![J::Null; ops.len()];
        if let Some(last) = exps.last_mut() {
            *last = script["obs"].clone();
        }
        (ops, exps)
    };
    let mut trace = vec![];
    let mut mismatch: Option<J> = None;
    let r = catch_unwind(AssertUnwindSafe(|| -> Result<(), String> {
        let mut runner = make()?;
        for (i, op) in ops.iter().enumerate() {
            let obs = runner.step(op)?;
            trace.push(json!({"op": op, "obs": obs}));
            if !exps[i].is_null() && obs != exps[i] {
                mismatch = Some(json!({
                    "kind": "obs",
                    "fields": diff_fields(&exps[i], &obs),
                    "ops": ops[..=i].to_vec(),
                    "expected": exps[i],
                    "observed": obs,
                }));
                break;
            }
        }
        drop(runner);
        Ok(())
    }));
    let nontrivial = exps.iter().any(|e| !e.is_null() && nontrivial_fn(e));
    match r {
        Err(p) => {
            let msg = p
                .downcast_ref::<String>()
                .cloned()
                .or_else(|| p.downcast_ref::<&str>().map(|s| s.to_string()))
                .unwrap_or_else(|| "panic".into());
            let n = trace.len().min(ops.len().saturating_sub(1));
            Ok(ScriptOutcome {
                trace,
                mismatch: Some(json!({"kind": "panic", "message": msg, "fields": ["panic"], "ops": ops[..=n].to_vec(), "expected": exps[n]})),
                panicked: true,
                nontrivial,
            })
        }
        Ok(Err(e)) => Err(e),
        Ok(Ok(())) => Ok(ScriptOutcome {
            trace,
            mismatch,
            panicked: false,
            nontrivial,
        }),
    }
}

fn mem_replay(args: &[String]) {
    let cfg = load_cfg(args);
    replay_generic(args, &|| mem::MemRunner::new(&cfg), mem::nontrivial);
}

fn inflight_replay(args: &[String]) {
    let cfg = load_cfg(args);
    let callers: Vec<u64> = arg(args, "--callers")
        .unwrap_or_else(|| "1,2,3".into())
        .split(',')
        .map(|x| x.parse().unwrap_or_else(|_| die("bad --callers")))
        .collect();
    replay_generic(args, &|| inflight::InflightEngine::new(&cfg, callers.clone()), inflight::nontrivial);
}

fn hybrid_replay(args: &[String]) {
    let cfg = load_cfg(args);
    let hpath = arg(args, "--hcfg").unwrap_or_else(|| die("--hcfg missing"));
    let hcfg: hybrid::HybridCfg =
        serde_json::from_str(&std::fs::read_to_string(&hpath).unwrap_or_else(|e| die(format!("{hpath}: {e}"))))
            .unwrap_or_else(|e| die(format!("{hpath}: {e}")));
    replay_generic(args, &|| hybrid::HybridRunner::new(&cfg, &hcfg), hybrid::nontrivial);
}

/// Image-level workloads: one JSON object {"ops": [...]} per line; the whole recorded trace is written
/// (there is nothing to compare against here: TLC judges the trace).
fn disk_run(args: &[String]) {
    let cfg = load_cfg(args);
    let hpath = arg(args, "--hcfg").unwrap_or_else(|| die("--hcfg missing"));
    let hcfg: hybrid::HybridCfg =
        serde_json::from_str(&std::fs::read_to_string(&hpath).unwrap_or_else(|e| die(format!("{hpath}: {e}"))))
            .unwrap_or_else(|e| die(format!("{hpath}: {e}")));
    let scripts_path = arg(args, "--scripts").unwrap_or_else(|| die("--scripts missing"));
    let trace_path = arg(args, "--trace").unwrap_or_else(|| die("--trace missing"));
    let text = std::fs::read_to_string(&scripts_path).unwrap_or_else(|e| die(format!("{scripts_path}: {e}")));
    let mut w = std::io::BufWriter::new(std::fs::File::create(&trace_path).unwrap_or_else(|e| die(format!("{trace_path}: {e}"))));
    let mut events = 0;
    let mut probes = 0;
    let mut n = 0;
    let tomb = args.iter().any(|a| a == "--tomb");
    for (i, line) in text.lines().filter(|l| !l.trim().is_empty()).enumerate() {
        let script: J = serde_json::from_str(line).unwrap_or_else(|e| die(format!("script {i}: {e}")));
        if tomb {
            let mut run = disk::TombRun::new(&cfg, &hcfg).unwrap_or_else(|e| die(format!("script {i}: {e}")));
            for op in script["ops"].as_array().unwrap_or_else(|| die("script without ops")) {
                run.apply(op).unwrap_or_else(|e| die(format!("script {i}: {op}: {e}")));
            }
            events += run.finish(&mut w, i).unwrap_or_else(|e| die(format!("write: {e}")));
            n += 1;
            continue;
        }
        let mut run = disk::DiskRun::new(&cfg, &hcfg).unwrap_or_else(|e| die(format!("script {i}: {e}")));
        for op in script["ops"].as_array().unwrap_or_else(|| die("script without ops")) {
            run.apply(op).unwrap_or_else(|e| die(format!("script {i}: {op}: {e}")));
        }
        let (e, p) = run.finish(&mut w, i).unwrap_or_else(|e| die(format!("write: {e}")));
        events += e;
        probes += p;
        n += 1;
    }
    w.flush().unwrap_or_else(|e| die(format!("flush: {e}")));
    println!("{}", json!({"scripts": n, "events": events, "probes": probes}));
}

fn mem_conc(args: &[String]) {
    let cfg = load_cfg(args);
    let ppath = arg(args, "--params").unwrap_or_else(|| die("--params missing"));
    let prm: conc::ConcParams =
        serde_json::from_str(&std::fs::read_to_string(&ppath).unwrap_or_else(|e| die(format!("{ppath}: {e}"))))
            .unwrap_or_else(|e| die(format!("{ppath}: {e}")));
    let trace_path = arg(args, "--trace").unwrap_or_else(|| die("--trace missing"));
    let seed: u64 = arg(args, "--seed").and_then(|s| s.parse().ok()).unwrap_or(1);
    let hang_secs: u64 = arg(args, "--hang-secs").and_then(|s| s.parse().ok()).unwrap_or(60);
    // watchdog: the whole batch of runs takes well under a second per run
    let limit = hang_secs + prm.runs as u64 / 4;
    std::thread::spawn(move || {
        std::thread::sleep(std::time::Duration::from_secs(limit));
        eprintln!("harness: concurrent runs did not finish within {limit}s (deadlock?)");
        std::process::exit(4);
    });
    let mut w = std::io::BufWriter::new(std::fs::File::create(&trace_path).unwrap_or_else(|e| die(format!("{trace_path}: {e}"))));
    let (runs, events) = conc::run(&cfg, &prm, seed, &mut w).unwrap_or_else(|e| die(e));
    w.flush().unwrap_or_else(|e| die(format!("flush: {e}")));
    println!("{}", json!({"runs": runs, "events": events}));
}

/// C18 under forced thread schedules: `--scripts` = file of {"owners": [..], "starts": [{t, op, from}..]} lines
fn pin_race(args: &[String]) {
    let spath = arg(args, "--scripts").unwrap_or_else(|| die("--scripts missing"));
    let trace_path = arg(args, "--trace").unwrap_or_else(|| die("--trace missing"));
    let repeat: usize = arg(args, "--repeat").and_then(|s| s.parse().ok()).unwrap_or(1);
    let settle: u64 = arg(args, "--settle-ms").and_then(|s| s.parse().ok()).unwrap_or(15);
    let text = std::fs::read_to_string(&spath).unwrap_or_else(|e| die(format!("{spath}: {e}")));
    let scripts: Vec<J> = text
        .lines()
        .filter(|l| !l.trim().is_empty())
        .map(|l| serde_json::from_str(l).unwrap_or_else(|e| die(format!("script: {e}"))))
        .collect();
    std::thread::spawn(move || {
        std::thread::sleep(std::time::Duration::from_secs(600));
        eprintln!("harness: forced schedules did not finish within 600s (deadlock?)");
        std::process::exit(4);
    });
    let mut w = std::io::BufWriter::new(std::fs::File::create(&trace_path).unwrap_or_else(|e| die(format!("{trace_path}: {e}"))));
    let (runs, events) = pinrace::run(&scripts, repeat, settle, &mut w).unwrap_or_else(|e| die(e));
    w.flush().unwrap_or_else(|e| die(format!("flush: {e}")));
    println!("{}", json!({"runs": runs, "events": events}));
}

/// C08: type round trips and flusher-buffer batches; `--batches` = file of {"hcfg": {...}, "pads": [...]} lines
fn codec_run(args: &[String]) {
    let cfg = load_cfg(args);
    let trace_path = arg(args, "--trace").unwrap_or_else(|| die("--trace missing"));
    let seed: u64 = arg(args, "--seed").and_then(|s| s.parse().ok()).unwrap_or(1);
    let per_type: usize = arg(args, "--random-per-type").and_then(|s| s.parse().ok()).unwrap_or(8);
    let mut w = std::io::BufWriter::new(std::fs::File::create(&trace_path).unwrap_or_else(|e| die(format!("{trace_path}: {e}"))));
    let evs = codec::type_cases(seed, per_type);
    let mut events = evs.len();
    codec::write_events(&mut w, &evs, 0).unwrap_or_else(|e| die(format!("write: {e}")));
    let mut batches = 0;
    if let Some(bpath) = arg(args, "--batches") {
        let text = std::fs::read_to_string(&bpath).unwrap_or_else(|e| die(format!("{bpath}: {e}")));
        for (i, line) in text.lines().filter(|l| !l.trim().is_empty()).enumerate() {
            let b: J = serde_json::from_str(line).unwrap_or_else(|e| die(format!("batch {i}: {e}")));
            let hcfg: hybrid::HybridCfg = serde_json::from_value(b["hcfg"].clone()).unwrap_or_else(|e| die(format!("batch {i}: {e}")));
            let pads: Vec<usize> = b["pads"].as_array().unwrap_or_else(|| die("batch without pads")).iter().filter_map(|x| x.as_u64()).map(|x| x as usize).collect();
            let compressed = !hcfg.compression.is_empty() && hcfg.compression != "none";
            let ev = codec::batch_case(&cfg, &hcfg, &pads, compressed).unwrap_or_else(|e| die(format!("batch {i}: {e}")));
            codec::write_events(&mut w, &[ev], i + 1).unwrap_or_else(|e| die(format!("write: {e}")));
            events += 1;
            batches += 1;
        }
    }
    w.flush().unwrap_or_else(|e| die(format!("flush: {e}")));
    println!("{}", json!({"events": events, "batches": batches}));
}

fn load_cfg(args: &[String]) -> mem::MemCfg {
    let cfg_path = arg(args, "--cfg").unwrap_or_else(|| die("--cfg missing"));
    let cfg: mem::MemCfg =
        serde_json::from_str(&std::fs::read_to_string(&cfg_path).unwrap_or_else(|e| die(format!("{cfg_path}: {e}"))))
            .unwrap_or_else(|e| die(format!("{cfg_path}: {e}")));
    if let Err(e) = cfg.precheck() {
        die(format!("ratio precheck failed: {e}"));
    }
    cfg
}

fn replay_generic<E: Engine>(args: &[String], make: &(dyn Fn() -> Result<E, String> + Sync), nontrivial_fn: fn(&J) -> bool) {
    let scripts_path = arg(args, "--scripts").unwrap_or_else(|| die("--scripts missing"));
    let out_path = arg(args, "--out").unwrap_or_else(|| die("--out missing"));
    let trace_path = arg(args, "--trace");
    let sample: usize = arg(args, "--trace-sample").and_then(|s| s.parse().ok()).unwrap_or(0);
    let max_mis: usize = arg(args, "--max-mismatch-traces").and_then(|s| s.parse().ok()).unwrap_or(200);
    let threads: usize = arg(args, "--threads").and_then(|s| s.parse().ok()).unwrap_or(8);

    let f = std::fs::File::open(&scripts_path).unwrap_or_else(|e| die(format!("{scripts_path}: {e}")));
    let lines: Vec<String> = std::io::BufReader::new(f)
        .lines()
        .map(|l| l.unwrap_or_else(|e| die(format!("read: {e}"))))
        .filter(|l| {
            let t = l.trim_start();
            t.starts_with('"') || t.starts_with('{')
        })
        .collect();
    let total = lines.len();
    let stride = if sample > 0 { (total / sample).max(1) } else { usize::MAX };

    // quiet panics from the code under test: they are data, reported in the result file
    std::panic::set_hook(Box::new(|_| {}));

    // watchdog (C16): a script that does not finish is a hang inside the code under test (operations take
    // microseconds); report it and stop the process with exit code 4
    let hang_secs: u64 = arg(args, "--hang-secs").and_then(|s| s.parse().ok()).unwrap_or(120);
    let progress: std::sync::Arc<parking_lot::Mutex<std::collections::HashMap<usize, (std::time::Instant, String)>>> =
        Default::default();
    {
        let progress = progress.clone();
        let out_path = out_path.clone();
        std::thread::spawn(move || {
            loop {
                std::thread::sleep(std::time::Duration::from_millis(250));
                let g = progress.lock();
                if let Some((_, (_, line))) = g.iter().find(|(_, (t, _))| t.elapsed().as_secs() >= hang_secs) {
                    let script = parse_tlc_json_line(line).unwrap_or(J::Null);
                    let _ = std::fs::write(format!("{out_path}.hang"), json!({"hang_secs": hang_secs, "script": script}).to_string());
                    eprintln!("harness: a script did not finish within {hang_secs}s");
                    std::process::exit(4);
                }
            }
        });
    }

    let chunk = total.div_ceil(threads.max(1)).max(1);
    let results: Vec<(usize, ScriptOutcome)> = std::thread::scope(|s| {
        let mut hs = vec![];
        for (ci, part) in lines.chunks(chunk).enumerate() {
            let progress = progress.clone();
            hs.push(s.spawn(move || {
                let mut v = vec![];
                for (i, line) in part.iter().enumerate() {
                    let idx = ci * chunk + i;
                    progress.lock().insert(ci, (std::time::Instant::now(), line.clone()));
                    let script = parse_tlc_json_line(line).unwrap_or_else(|| die(format!("unparsable script line {idx}")));
                    let mut o = run_script(make, nontrivial_fn, &script).unwrap_or_else(|e| die(format!("script {idx}: {e}")));
                    let keep = o.mismatch.is_some() || (stride != usize::MAX && idx % stride == 0);
                    if !keep {
                        o.trace.clear();
                    }
                    v.push((idx, o));
                }
                progress.lock().remove(&ci);
                v
            }));
        }
        hs.into_iter().flat_map(|h| h.join().unwrap_or_else(|_| die("worker panicked"))).collect()
    });

    let mut matched = 0usize;
    let mut nontrivial = 0usize;
    let mut panics = 0usize;
    let mut mismatches: Vec<J> = vec![];
    let mut by_field: std::collections::BTreeMap<String, usize> = Default::default();
    let mut trace_out = trace_path.map(|p| {
        std::io::BufWriter::new(std::fs::File::create(&p).unwrap_or_else(|e| die(format!("{p}: {e}"))))
    });
    let mut traced_mis = 0usize;
    let mut traced_scripts = 0usize;
    let mut n_mis = 0usize;
    let mut n_roots = 0usize;
    // a mismatch is a *root* if no proper prefix of its operation sequence is itself a mismatching
    // script (every prefix of a script is a script of the same edge set): its pre-state conformed.
    // with --prop-fields only mismatches touching those components block deeper scripts from being roots
    let prop_fields: Option<Vec<String>> = arg(args, "--prop-fields").map(|s| s.split(',').map(|x| x.to_string()).collect());
    let relevant = |m: &J| -> bool {
        match (&prop_fields, m["fields"].as_array()) {
            (Some(pf), Some(fs)) => fs.iter().any(|f| pf.iter().any(|p| Some(p.as_str()) == f.as_str()) || f == "panic"),
            _ => true,
        }
    };
    let mis_ops: std::collections::HashSet<String> = results
        .iter()
        .filter_map(|(_, o)| o.mismatch.as_ref().filter(|m| relevant(m)).map(|m| m["ops"].to_string()))
        .collect();
    let is_root = |m: &J| -> bool {
        // a mismatch in mechanism-only components is drift: counted, never a candidate
        if !relevant(m) {
            return false;
        }
        let ops = m["ops"].as_array().cloned().unwrap_or_default();
        (2..ops.len()).all(|n| !mis_ops.contains(&J::Array(ops[..n].to_vec()).to_string()))
    };
    // shortest mismatching scripts first: they are the minimal counterexamples
    let mut order: Vec<usize> = (0..results.len()).collect();
    order.sort_by_key(|i| {
        let (idx, o) = &results[*i];
        (o.mismatch.as_ref().map(|m| m["ops"].as_array().map(|a| a.len()).unwrap_or(0)).unwrap_or(0), *idx)
    });
    for i in order {
        let (idx, o) = &results[i];
        if o.nontrivial {
            nontrivial += 1;
        }
        if o.panicked {
            panics += 1;
        }
        let is_mis = o.mismatch.is_some();
        match &o.mismatch {
            None => matched += 1,
            Some(m) => {
                n_mis += 1;
                if let Some(fs) = m["fields"].as_array() {
                    for f in fs {
                        *by_field.entry(f.as_str().unwrap_or("?").to_string()).or_default() += 1;
                    }
                }
                let root = is_root(m);
                if root {
                    n_roots += 1;
                }
                if mismatches.len() < 400 && root {
                    let mut m = m.clone();
                    m["script"] = json!(idx);
                    m["root"] = json!(root);
                    mismatches.push(m);
                }
            }
        }
        if let Some(w) = trace_out.as_mut() {
            let root = o.mismatch.as_ref().map(|m| is_root(m)).unwrap_or(false);
            if !o.trace.is_empty() && (!is_mis || (root && traced_mis < max_mis)) {
                if is_mis {
                    traced_mis += 1;
                }
                traced_scripts += 1;
                for (j, ev) in o.trace.iter().enumerate() {
                    let mut ev = ev.clone();
                    ev["script"] = json!(idx);
                    ev["step"] = json!(j);
                    ev["mis"] = json!(is_mis);
                    writeln!(w, "{}", ev).unwrap_or_else(|e| die(format!("write: {e}")));
                }
            }
        }
    }
    if let Some(mut w) = trace_out {
        w.flush().unwrap_or_else(|e| die(format!("flush: {e}")));
    }
    let res = json!({
        "scripts": total,
        "matched": matched,
        "mismatched": n_mis,
        "root_mismatches": n_roots,
        "panics": panics,
        "nontrivial": nontrivial,
        "by_field": by_field,
        "traced_scripts": traced_scripts,
        "mismatches": mismatches,
    });
    std::fs::write(&out_path, serde_json::to_string_pretty(&res).unwrap()).unwrap_or_else(|e| die(format!("{out_path}: {e}")));
}

fn mem_random(args: &[String]) {
    let cfg_path = arg(args, "--cfg").unwrap_or_else(|| die("--cfg missing"));
    let prm_path = arg(args, "--params").unwrap_or_else(|| die("--params missing"));
    let trace_path = arg(args, "--trace").unwrap_or_else(|| die("--trace missing"));
    let seed: u64 = arg(args, "--seed").and_then(|s| s.parse().ok()).unwrap_or(1);
    let cfg: mem::MemCfg =
        serde_json::from_str(&std::fs::read_to_string(&cfg_path).unwrap_or_else(|e| die(format!("{cfg_path}: {e}"))))
            .unwrap_or_else(|e| die(format!("{cfg_path}: {e}")));
    if let Err(e) = cfg.precheck() {
        die(format!("ratio precheck failed: {e}"));
    }
    let prm: mem::RandParams =
        serde_json::from_str(&std::fs::read_to_string(&prm_path).unwrap_or_else(|e| die(format!("{prm_path}: {e}"))))
            .unwrap_or_else(|e| die(format!("{prm_path}: {e}")));
    let mut w = std::io::BufWriter::new(std::fs::File::create(&trace_path).unwrap_or_else(|e| die(format!("{trace_path}: {e}"))));
    std::panic::set_hook(Box::new(|_| {}));
    let mut rng = mem::Lcg(seed.wrapping_mul(0x2545F4914F6CDD1D) ^ 0xABCDEF);
    let mut panics = 0;
    for n in 0..prm.num {
        let mut sub = mem::Lcg(rng.next());
        let r = catch_unwind(AssertUnwindSafe(|| mem::random_run(&cfg, &prm, &mut sub)));
        match r {
            Ok(Ok(trace)) => {
                for (j, ev) in trace.iter().enumerate() {
                    let mut ev = ev.clone();
                    ev["script"] = json!(n);
                    ev["step"] = json!(j);
                    ev["mis"] = json!(false);
                    writeln!(w, "{}", ev).unwrap_or_else(|e| die(format!("write: {e}")));
                }
            }
            Ok(Err(e)) => die(format!("random run {n}: {e}")),
            Err(_) => panics += 1,
        }
    }
    w.flush().unwrap_or_else(|e| die(format!("flush: {e}")));
    println!("{}", json!({"runs": prm.num, "panics": panics}));
}

fn main() {
    let args: Vec<String> = std::env::args().collect();
    match args.get(1).map(|s| s.as_str()) {
        Some("mem-replay") => mem_replay(&args[2..]),
        Some("mem-random") => mem_random(&args[2..]),
        Some("inflight-replay") => inflight_replay(&args[2..]),
        Some("hybrid-replay") => hybrid_replay(&args[2..]),
        Some("disk-run") => disk_run(&args[2..]),
        Some("mem-conc") => mem_conc(&args[2..]),
        Some("codec-run") => codec_run(&args[2..]),
        Some("pin-race") => pin_race(&args[2..]),
        _ => die("usage: harness <mem-replay> ..."),
    }
}
