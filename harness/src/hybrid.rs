//! Driver for the hybrid cache (spec/Hybrid.tla): a real `HybridCache` over an `FsDevice` in a
//! scratch directory, the gated io engine, a current-thread runtime turned by hand, the flush switch
//! of `test_utils`, a recording admission filter. One driver operation = one action of the
//! specification followed by "the flusher runs until it has nothing to do or is blocked".

use std::{
    collections::{BTreeMap, BTreeSet},
    path::PathBuf,
    sync::{
        Arc,
        atomic::{AtomicU64, Ordering},
    },
    task::{Context, Poll, Waker},
};

use foyer::{
    BlockEngineConfig, Code, Compression, DeviceBuilder, FsDeviceBuilder, HybridCache, HybridCacheBuilder,
    HybridCachePolicy, HybridCacheProperties, Location, RecoverMode, Spawner, Statistics, StorageFilter,
    StorageFilterCondition, StorageFilterResult,
};
use foyer_storage::test_utils::Switch;
use parking_lot::Mutex;
use serde::Deserialize;
use serde_json::{Value as J, json};

use crate::{
    gate::{Gate, GateEngineConfig},
    mem::{MemCfg, TableHashBuilder, eviction_config, table_of},
};

pub const PAGE: usize = 4096;
const HEADER: usize = 36;
const MAGIC: u32 = 0x9703_2700;

/// Value stored in the hybrid cache: key, version token, padding (size class).
#[derive(Clone, Debug, PartialEq, Eq)]
pub struct HVal {
    pub key: u64,
    pub ver: u64,
    pub pad: Vec<u8>,
}

impl Code for HVal {
    fn encode(&self, w: &mut impl std::io::Write) -> foyer::Result<()> {
        w.write_all(&self.key.to_le_bytes()).map_err(foyer::Error::io_error)?;
        w.write_all(&self.ver.to_le_bytes()).map_err(foyer::Error::io_error)?;
        w.write_all(&(self.pad.len() as u32).to_le_bytes()).map_err(foyer::Error::io_error)?;
        w.write_all(&self.pad).map_err(foyer::Error::io_error)?;
        Ok(())
    }
    fn decode(r: &mut impl std::io::Read) -> foyer::Result<Self> {
        let mut b8 = [0u8; 8];
        r.read_exact(&mut b8).map_err(foyer::Error::io_error)?;
        let key = u64::from_le_bytes(b8);
        r.read_exact(&mut b8).map_err(foyer::Error::io_error)?;
        let ver = u64::from_le_bytes(b8);
        let mut b4 = [0u8; 4];
        r.read_exact(&mut b4).map_err(foyer::Error::io_error)?;
        let n = u32::from_le_bytes(b4) as usize;
        if n > (64 << 20) {
            return Err(foyer::Error::new(foyer::ErrorKind::Parse, "pad length out of range"));
        }
        let mut pad = vec![0u8; n];
        r.read_exact(&mut pad).map_err(foyer::Error::io_error)?;
        Ok(Self { key, ver, pad })
    }
    fn estimated_size(&self) -> usize {
        20 + self.pad.len()
    }
}

#[derive(Clone, Debug, Deserialize)]
pub struct HybridCfg {
    pub policy: String,
    pub flush_on_close: bool,
    pub tomblog: bool,
    pub memcap: usize,
    /// key -> "default" | "inmem" | "ondisk"
    pub keyloc: BTreeMap<String, String>,
    #[serde(default)]
    pub compression: String,
    #[serde(default)]
    pub pad: usize,
    /// hashes the admission filter rejects
    #[serde(default)]
    pub reject: Vec<u64>,
    /// size of a blob index in pages (default 1)
    #[serde(default)]
    pub blob_index_pages: Option<usize>,
    /// write-queue threshold in bytes (default: the engine's 16 MiB)
    #[serde(default)]
    pub queue_threshold: Option<usize>,
    /// inserts of keys with disk-only advice go through `HybridCache::storage_writer` (default placement,
    /// the writer makes the entry disk-only) instead of `insert_with_properties(Location::OnDisk)`
    #[serde(default)]
    pub ondisk_via_writer: bool,
    #[serde(default = "default_blocks")]
    pub blocks: usize,
    #[serde(default = "default_block_pages")]
    pub block_pages: usize,
    /// size of the flusher's io buffer in pages (default 8 blocks)
    #[serde(default)]
    pub buffer_pages: Option<usize>,
    /// padding bytes that do not compress (pseudo-random) instead of one repeated byte
    #[serde(default)]
    pub incompressible: bool,
    #[serde(default)]
    pub flushers: Option<usize>,
    #[serde(default)]
    pub reclaimers: Option<usize>,
    #[serde(default)]
    pub clean_threshold: Option<usize>,
    /// hashes the reinsertion filter admits (entries of these keys survive the reclaim of their block)
    #[serde(default)]
    pub reinsert: Vec<u64>,
}

fn default_blocks() -> usize {
    16
}
fn default_block_pages() -> usize {
    16
}

#[derive(Debug, Default)]
struct EnqRecorder(Arc<Mutex<Vec<u64>>>, Vec<u64>);

impl StorageFilterCondition for EnqRecorder {
    fn filter(&self, _: &Arc<Statistics>, hash: u64, _: usize) -> StorageFilterResult {
        self.0.lock().push(hash);
        if self.1.contains(&hash) { StorageFilterResult::Reject } else { StorageFilterResult::Admit }
    }
}

type HC = HybridCache<u64, HVal, TableHashBuilder>;

static DIR_COUNTER: AtomicU64 = AtomicU64::new(0);

pub struct HybridRunner {
    mcfg: MemCfg,
    hcfg: HybridCfg,
    keys: Vec<u64>,
    rt: tokio::runtime::Runtime,
    dir: PathBuf,
    pub gate: Gate,
    switch: Switch,
    enq: Arc<Mutex<Vec<u64>>>,
    cache: Option<HC>,
    nv: u64,
    truth: BTreeMap<u64, u64>,
    seen_done: BTreeSet<usize>,
    /// a lookup started by "get_start" whose disk read is held at the device gate, until "get_finish"
    pending_get: Option<(u64, std::pin::Pin<Box<dyn std::future::Future<Output = foyer::Result<Option<foyer::HybridCacheEntry<u64, HVal, TableHashBuilder>>>>>>)>,
    /// handles returned by inserts that the driver keeps ("ins_h") until "drop_h"
    held: Vec<foyer::HybridCacheEntry<u64, HVal, TableHashBuilder>>,
}

fn loc_of(s: &str) -> Location {
    match s {
        "inmem" => Location::InMem,
        "ondisk" => Location::OnDisk,
        _ => Location::Default,
    }
}

/// Versions of the entries contained in a block-partition write (independent parser of the entry
/// format: 36-byte header with magic, then value bytes = HVal, then key bytes; entries page aligned).
pub fn parse_entries(data: &[u8]) -> Vec<(u64, u64, u64, u64)> {
    parse_entries_full(data).into_iter().map(|e| (e.0, e.1, e.2, e.3)).collect()
}

/// ... plus the key and value lengths the header records
pub fn parse_entries_full(data: &[u8]) -> Vec<(u64, u64, u64, u64, usize, usize)> {
    // (key, version, hash, sequence)
    let mut out = vec![];
    let mut off = 0;
    while off + HEADER <= data.len() {
        let h = &data[off..off + HEADER];
        let key_len = u32::from_be_bytes(h[0..4].try_into().unwrap()) as usize;
        let value_len = u32::from_be_bytes(h[4..8].try_into().unwrap()) as usize;
        let hash = u64::from_be_bytes(h[8..16].try_into().unwrap());
        let seq = u64::from_be_bytes(h[16..24].try_into().unwrap());
        let magic = u32::from_be_bytes(h[32..36].try_into().unwrap());
        if magic & 0xFFFF_FF00 != MAGIC || off + HEADER + key_len + value_len > data.len() {
            off += PAGE;
            continue;
        }
        let compression = (magic & 0xFF) as u8;
        let v = &data[off + HEADER..off + HEADER + value_len];
        if compression == 0 && v.len() >= 16 {
            let key = u64::from_le_bytes(v[0..8].try_into().unwrap());
            let ver = u64::from_le_bytes(v[8..16].try_into().unwrap());
            out.push((key, ver, hash, seq, key_len, value_len));
        } else {
            // compressed payload: the key (stored after the value, uncompressed) still identifies the entry
            let kb = &data[off + HEADER + value_len..off + HEADER + value_len + key_len];
            let key = if kb.len() == 8 { u64::from_le_bytes(kb.try_into().unwrap()) } else { u64::MAX };
            out.push((key, u64::MAX, hash, seq, key_len, value_len));
        }
        let len = HEADER + key_len + value_len;
        off += len.div_ceil(PAGE) * PAGE;
    }
    out
}

impl HybridRunner {
    pub fn new(mcfg: &MemCfg, hcfg: &HybridCfg) -> Result<Self, String> {
        let base = std::env::var("VERIF_SCRATCH").unwrap_or_else(|_| "/dev/shm".into());
        let dir = PathBuf::from(base).join(format!(
            "verif-hy-{}-{}",
            std::process::id(),
            DIR_COUNTER.fetch_add(1, Ordering::Relaxed)
        ));
        let _ = std::fs::remove_dir_all(&dir);
        Self::with_dir(mcfg, hcfg, dir)
    }

    pub fn keys(&self) -> Vec<u64> {
        self.keys.clone()
    }

    pub fn dir(&self) -> &std::path::Path {
        &self.dir
    }

    pub fn turn_pub(&self) {
        self.turn()
    }

    pub fn may_contains(&self, k: u64) -> bool {
        self.cache.as_ref().map(|c| c.storage().may_contains(&k)).unwrap_or(false)
    }

    /// `Store::load` (memory tier bypassed): version, 0 = miss / throttled, -1 = error, -2 = incomplete.
    pub fn store_load(&mut self, k: u64) -> i64 {
        let Some(cache) = self.cache.as_ref().cloned() else { return 0 };
        let store = cache.storage().clone();
        let r = self.drive(Box::pin(async move { store.load(&k).await }));
        match r {
            None => -2,
            Some(Ok(foyer::Load::Entry { value, .. })) => Self::encode_res(&value, k),
            Some(Ok(foyer::Load::Piece { piece, .. })) => Self::encode_res(piece.value(), k),
            Some(Ok(_)) => 0,
            Some(Err(_)) => -1,
        }
    }

    /// `Store::load` with the age the disk tier reports for the entry: 0 = miss, 1 = young, 2 = old (its block is
    /// marked for imminent reclaim), 3 = served from the write queue
    pub fn store_load_age(&mut self, k: u64) -> (i64, u8) {
        let Some(cache) = self.cache.as_ref().cloned() else { return (0, 0) };
        let store = cache.storage().clone();
        let r = self.drive(Box::pin(async move { store.load(&k).await }));
        match r {
            None => (-2, 0),
            Some(Ok(foyer::Load::Entry { value, populated, .. })) => (
                Self::encode_res(&value, k),
                match populated.age {
                    foyer::Age::Old => 2,
                    _ => 1,
                },
            ),
            Some(Ok(foyer::Load::Piece { piece, .. })) => (Self::encode_res(piece.value(), k), 3),
            Some(Ok(_)) => (0, 0),
            Some(Err(_)) => (-1, 0),
        }
    }

    /// Start `Store::wait` in the background; the flag turns true when it returns (= the acknowledgement
    /// that everything submitted before this call has been flushed).
    pub fn spawn_wait_flag(&self) -> Arc<std::sync::atomic::AtomicBool> {
        let flag = Arc::new(std::sync::atomic::AtomicBool::new(false));
        if let Some(cache) = self.cache.as_ref() {
            let store = cache.storage().clone();
            let f2 = flag.clone();
            self.rt.spawn(async move {
                store.wait().await;
                f2.store(true, Ordering::SeqCst);
            });
        }
        flag
    }

    /// As `spawn_wait_flag`, but the first poll of `Store::wait` (which hands the wait request to the flushers)
    /// happens right here, before any background task runs - as in `delete(k); wait().await` on one task.
    pub fn spawn_wait_flag_eager(&self) -> Arc<std::sync::atomic::AtomicBool> {
        let flag = Arc::new(std::sync::atomic::AtomicBool::new(false));
        if let Some(cache) = self.cache.as_ref() {
            let store = cache.storage().clone();
            let f2 = flag.clone();
            let mut fut: std::pin::Pin<Box<dyn std::future::Future<Output = ()> + Send>> = Box::pin(async move {
                store.wait().await;
                f2.store(true, Ordering::SeqCst);
            });
            let _g = self.rt.enter();
            let mut cx = Context::from_waker(Waker::noop());
            if fut.as_mut().poll(&mut cx).is_pending() {
                self.rt.spawn(fut);
            }
        }
        flag
    }

    /// `Store::wait`: returns once everything submitted so far has been flushed.
    pub fn wait_flush(&mut self) -> Result<(), String> {
        let Some(cache) = self.cache.as_ref().cloned() else { return Ok(()) };
        let store = cache.storage().clone();
        match self.drive(Box::pin(async move { store.wait().await })) {
            Some(()) => Ok(()),
            None => Err("wait() did not return".into()),
        }
    }

    pub fn with_dir(mcfg: &MemCfg, hcfg: &HybridCfg, dir: PathBuf) -> Result<Self, String> {
        let (_, keys) = table_of(mcfg)?;
        let rt = tokio::runtime::Builder::new_current_thread()
            .enable_time()
            .build()
            .map_err(|e| format!("runtime: {e}"))?;
        std::fs::create_dir_all(&dir).map_err(|e| format!("{dir:?}: {e}"))?;
        Ok(Self {
            mcfg: mcfg.clone(),
            hcfg: hcfg.clone(),
            keys,
            rt,
            dir,
            gate: Gate::default(),
            switch: Switch::default(),
            enq: Arc::new(Mutex::new(vec![])),
            cache: None,
            nv: 0,
            truth: BTreeMap::new(),
            seen_done: BTreeSet::new(),
            held: vec![],
            pending_get: None,
        })
    }

    fn open(&mut self) -> Result<(), String> {
        let (table, _) = table_of(&self.mcfg)?;
        let h = &self.hcfg;
        let block_size = h.block_pages * PAGE;
        let log_pages = if h.tomblog { (h.blocks * h.block_pages).div_ceil(256).max(1) + 1 } else { 0 };
        let capacity = h.blocks * block_size + log_pages * PAGE;
        let device = FsDeviceBuilder::new(&self.dir)
            .with_capacity(capacity)
            .build()
            .map_err(|e| format!("device: {e}"))?;
        let compression = match h.compression.as_str() {
            "zstd" => Compression::Zstd,
            "lz4" => Compression::Lz4,
            _ => Compression::None,
        };
        let engine = BlockEngineConfig::new(device)
            .with_block_size(block_size)
            .with_flushers(h.flushers.unwrap_or(1))
            .with_reclaimers(h.reclaimers.unwrap_or(1))
            .with_clean_block_threshold(h.clean_threshold.unwrap_or(1))
            .with_reinsertion_filter(if h.reinsert.is_empty() {
                StorageFilter::new().with_condition(foyer::RejectAll)
            } else {
                StorageFilter::new().with_condition(foyer_storage::test_utils::Biased::new(h.reinsert.clone()))
            })
            .with_indexer_shards(1)
            .with_buffer_pool_size(h.buffer_pages.map(|p| p * PAGE).unwrap_or(8 * block_size))
            .with_tombstone_log(h.tomblog)
            .with_flush_switch(self.switch.clone())
            .with_compression(compression)
            .with_admission_filter(StorageFilter::new().with_condition(EnqRecorder(self.enq.clone(), h.reject.clone())));
        let engine = match h.blob_index_pages {
            Some(n) => engine.with_blob_index_size(n * PAGE),
            None => engine,
        };
        let engine = match h.queue_threshold {
            Some(n) => engine.with_submit_queue_size_threshold(n),
            None => engine,
        };
        let policy = if h.policy == "woi" { HybridCachePolicy::WriteOnInsertion } else { HybridCachePolicy::WriteOnEviction };
        let builder = HybridCacheBuilder::new()
            .with_policy(policy)
            .with_flush_on_close(h.flush_on_close)
            .memory(h.memcap)
            .with_shards(1)
            .with_eviction_config(eviction_config(&self.mcfg)?)
            .with_hash_builder(TableHashBuilder::new(table))
            .with_weighter(|_: &u64, _: &HVal| 1)
            .storage()
            .with_io_engine_config(GateEngineConfig { gate: self.gate.clone() })
            .with_engine_config(engine)
            .with_recover_mode(RecoverMode::Quiet)
            .with_spawner(Spawner::from(self.rt.handle().clone()));
        let cache = self.rt.block_on(builder.build()).map_err(|e| format!("build: {e}"))?;
        self.cache = Some(cache);
        Ok(())
    }

    /// Let every task run until nothing moves any more.
    fn turn(&self) {
        let gate = self.gate.clone();
        self.rt.block_on(async {
            let mut stable = 0;
            let mut last = (usize::MAX, usize::MAX);
            for _ in 0..400 {
                tokio::task::yield_now().await;
                let now = (gate.len(), gate.done_count());
                if now == last {
                    stable += 1;
                    if stable >= 8 {
                        break;
                    }
                } else {
                    stable = 0;
                    last = now;
                }
            }
        });
    }

    fn val(&self, k: u64, v: u64) -> HVal {
        self.val_pad(k, v, self.hcfg.pad)
    }

    fn val_pad(&self, k: u64, v: u64, pad: usize) -> HVal {
        let pad = if self.hcfg.incompressible {
            let mut g = crate::mem::Lcg(v.wrapping_mul(0x9E37) ^ k);
            (0..pad).map(|_| g.next() as u8).collect()
        } else {
            vec![(v & 0xFF) as u8; pad]
        };
        HVal { key: k, ver: v, pad }
    }

    /// (key, version, hash, sequence, key_len, value_len) of every entry in the completed device writes
    pub fn written_entries(&self) -> Vec<(u64, u64, u64, u64, usize, usize)> {
        let first = if self.hcfg.tomblog { 1 } else { 0 };
        let mut out = vec![];
        for e in self.gate.entries_from(0) {
            if e.done && e.write && e.partition >= first {
                if let Some(d) = e.data.as_ref() {
                    out.extend(parse_entries_full(d));
                }
            }
        }
        out
    }

    /// Load k and compare with the value the driver inserted as version `ver` with `pad` bytes of padding:
    /// (bit-exact equal, miss)
    pub fn load_exact(&mut self, k: u64, ver: u64, pad: usize) -> (bool, bool) {
        let expect = self.val_pad(k, ver, pad);
        let Some(cache) = self.cache.as_ref().cloned() else { return (false, true) };
        let store = cache.storage().clone();
        match self.drive(Box::pin(async move { store.load(&k).await })) {
            Some(Ok(foyer::Load::Entry { key, value, .. })) => (key == k && value == expect, false),
            Some(Ok(foyer::Load::Piece { piece, .. })) => (*piece.key() == k && *piece.value() == expect, false),
            Some(Ok(_)) => (false, true),
            _ => (false, false),
        }
    }

    fn props(&self, k: u64) -> HybridCacheProperties {
        let loc = self.hcfg.keyloc.get(&k.to_string()).map(|s| s.as_str()).unwrap_or("default");
        HybridCacheProperties::default().with_location(loc_of(loc))
    }

    fn encode_res(v: &HVal, want: u64) -> i64 {
        if v.key == want { v.ver as i64 } else { 1_000_000 + v.ver as i64 }
    }

    /// Drive a lookup future to completion, turning the runtime in between; -2 = did not complete.
    fn drive<T>(&self, mut fut: std::pin::Pin<Box<dyn std::future::Future<Output = T> + '_>>) -> Option<T> {
        let mut cx = Context::from_waker(Waker::noop());
        for _ in 0..50 {
            let _g = self.rt.enter();
            if let Poll::Ready(r) = fut.as_mut().poll(&mut cx) {
                return Some(r);
            }
            drop(_g);
            self.turn();
        }
        None
    }

    pub fn apply(&mut self, op: &J) -> Result<i64, String> {
        let a = op["a"].as_str().ok_or("action without name")?;
        // "<op>_nt": the operation is immediately followed by the driver's next one (no background task runs)
        let (a, nt) = match a.strip_suffix("_nt") {
            Some(base) => (base, true),
            None => (a, false),
        };
        // "ins_big": an entry of twice the block size (over the per-entry limit of the disk tier)
        let big_pad = if a == "ins_big" { Some(2 * self.hcfg.block_pages * PAGE) } else { None };
        let a = if a == "ins_big" { "ins" } else { a };
        let k = op.get("k").and_then(|x| x.as_u64()).unwrap_or(0);
        if a == "init" {
            self.open()?;
            self.turn();
            return Ok(0);
        }
        if a == "reopen" {
            self.held.clear();
            self.pending_get = None;
            drop(self.cache.take());
            self.turn();
            self.switch.off();
            self.gate.set_hold(false, false);
            self.open()?;
            self.turn();
            return Ok(0);
        }
        let cache = self.cache.as_ref().ok_or("cache not open")?.clone();
        let mut res = 0i64;
        match a {
            "ins" => {
                self.nv += 1;
                let v = self.nv;
                self.truth.insert(k, v);
                let val = match op.get("pad").and_then(|x| x.as_u64()).map(|p| p as usize).or(big_pad) {
                    Some(p) => self.val_pad(k, v, p),
                    None => self.val(k, v),
                };
                let _g = self.rt.enter();
                if self.hcfg.ondisk_via_writer && self.hcfg.keyloc.get(&k.to_string()).map(|s| s == "ondisk").unwrap_or(false) {
                    // the writer consults the admission filter itself; a rejected entry is not inserted at all
                    drop(cache.storage_writer(k).insert(val));
                } else {
                    drop(cache.insert_with_properties(k, val, self.props(k)));
                }
            }
            // insert keeping the returned handle until "drop_h"
            "ins_h" => {
                self.nv += 1;
                let v = self.nv;
                self.truth.insert(k, v);
                let val = self.val(k, v);
                let _g = self.rt.enter();
                if self.hcfg.ondisk_via_writer && self.hcfg.keyloc.get(&k.to_string()).map(|s| s == "ondisk").unwrap_or(false) {
                    if let Some(h) = cache.storage_writer(k).insert(val) {
                        self.held.push(h);
                    }
                } else {
                    let h = cache.insert_with_properties(k, val, self.props(k));
                    self.held.push(h);
                }
            }
            "drop_h" => {
                let _g = self.rt.enter();
                self.held.clear();
            }
            "rem" => {
                self.truth.remove(&k);
                let _g = self.rt.enter();
                cache.remove(&k);
            }
            "get" => {
                let r = self.drive(Box::pin(cache.get(&k)));
                res = match r {
                    None => -2,
                    Some(Ok(Some(e))) => Self::encode_res(e.value(), k),
                    Some(Ok(None)) => 0,
                    Some(Err(_)) => -1,
                };
            }
            "get_start" => {
                // the device holds reads: the lookup gets as far as its disk read and stays there
                self.gate.set_hold(false, true);
                let c2 = cache.clone();
                let mut fut: std::pin::Pin<Box<dyn std::future::Future<Output = _>>> = Box::pin(async move { c2.get(&k).await });
                let mut cx = Context::from_waker(Waker::noop());
                let mut done = None;
                for _ in 0..4 {
                    let g = self.rt.enter();
                    if let Poll::Ready(r) = fut.as_mut().poll(&mut cx) {
                        done = Some(r);
                        break;
                    }
                    drop(g);
                    self.turn();
                }
                match done {
                    // answered without a disk read in flight: report it at once (the specification does not expect this)
                    Some(r) => {
                        self.gate.set_hold(false, false);
                        self.gate.release_all();
                        res = match r {
                            Ok(Some(e)) => Self::encode_res(e.value(), k),
                            Ok(None) => 0,
                            Err(_) => -1,
                        };
                    }
                    None => self.pending_get = Some((k, fut)),
                }
            }
            "get_finish" => {
                self.gate.set_hold(false, false);
                self.gate.release_all();
                if let Some((pk, fut)) = self.pending_get.take() {
                    res = match self.drive(fut) {
                        None => -2,
                        Some(Ok(Some(e))) => Self::encode_res(e.value(), pk),
                        Some(Ok(None)) => 0,
                        Some(Err(_)) => -1,
                    };
                }
            }
            "sload" => {
                res = self.store_load(k);
            }
            "fetch" => {
                // the origin returns the current source-of-truth version (creating one if none)
                let fresh = !self.truth.contains_key(&k);
                let v = if fresh { self.nv + 1 } else { self.truth[&k] };
                let val = self.val(k, v);
                let props = self.props(k);
                let ran = Arc::new(std::sync::atomic::AtomicBool::new(false));
                let ran2 = ran.clone();
                let fut = {
                    let _g = self.rt.enter();
                    cache.get_or_fetch(&k, move || async move {
                        ran2.store(true, Ordering::Relaxed);
                        Ok::<_, anyhow::Error>((val, props))
                    })
                };
                let r = self.drive(Box::pin(fut));
                if ran.load(Ordering::Relaxed) && fresh {
                    self.nv += 1;
                    self.truth.insert(k, v);
                }
                res = match r {
                    None => -2,
                    Some(Ok(e)) => Self::encode_res(e.value(), k),
                    Some(Err(_)) => -1,
                };
            }
            "probation" => {
                cache.storage().verif_mark_probation();
            }
            "clear" => {
                self.truth.clear();
                let r = self.drive(Box::pin(cache.clear()));
                res = match r {
                    None => -2,
                    Some(Ok(())) => 0,
                    Some(Err(_)) => -1,
                };
            }
            "evict_all" => {
                let _g = self.rt.enter();
                cache.memory().evict_all();
            }
            "hold" => self.switch.on(),
            "unhold" => {
                self.switch.off();
                // the flusher only looks at the switch when something arrives: kick it
                let store = cache.storage().clone();
                self.rt.spawn(async move { store.wait().await });
            }
            "gate_on" => self.gate.set_hold(true, false),
            "gate_off" => {
                self.gate.set_hold(false, false);
                self.gate.release_all();
            }
            "gate_step" => {
                // the flush switch is on (no further batch can be taken): let the batch in flight
                // finish all its writes (data, then index, per blob part)
                for _ in 0..32 {
                    if self.gate.pending().is_empty() {
                        break;
                    }
                    self.gate.release_all();
                    self.turn();
                }
            }
            "close" => {
                let r = self.drive(Box::pin(cache.close()));
                if r.is_none() {
                    res = -2;
                }
            }
            other => return Err(format!("unknown action {other}")),
        }
        // "noturn": the background tasks (flushers) do not get to run before the driver's next operation
        if !nt && !op.get("noturn").and_then(|x| x.as_bool()).unwrap_or(false) {
            self.turn();
        }
        Ok(res)
    }

    pub fn observe(&mut self, res: i64) -> J {
        let enq: Vec<u64> = std::mem::take(&mut *self.enq.lock());
        let first_block_partition = if self.hcfg.tomblog { 1 } else { 0 };
        let mut wr: Vec<u64> = vec![];
        for e in self.gate.entries_from(0) {
            if e.done && e.write && !self.seen_done.contains(&e.id) {
                self.seen_done.insert(e.id);
                if e.partition >= first_block_partition {
                    if let Some(d) = e.data.as_ref() {
                        wr.extend(parse_entries(d).into_iter().map(|(_, v, _, _)| v));
                    }
                }
            }
        }
        let (mem, dsk): (Vec<u8>, Vec<u8>) = match self.cache.as_ref() {
            Some(c) => (
                self.keys.iter().map(|k| c.memory().contains(k) as u8).collect(),
                self.keys.iter().map(|k| c.storage().may_contains(k) as u8).collect(),
            ),
            None => (vec![0; self.keys.len()], vec![0; self.keys.len()]),
        };
        let log = self.gate.entries_from(0);
        let pend = self.gate.pending().iter().any(|i| log[*i].write) as u8;
        json!({"res": res, "enq": enq, "wr": wr, "pend": pend, "mem": mem, "dsk": dsk})
    }
}

impl Drop for HybridRunner {
    fn drop(&mut self) {
        self.gate.set_hold(false, false);
        self.gate.release_all();
        drop(self.cache.take());
        self.turn();
        let _ = std::fs::remove_dir_all(&self.dir);
    }
}

impl crate::Engine for HybridRunner {
    fn step(&mut self, op: &J) -> Result<J, String> {
        let res = self.apply(op)?;
        Ok(self.observe(res))
    }
}

pub fn nontrivial(e: &J) -> bool {
    e["enq"].as_array().map(|a| !a.is_empty()).unwrap_or(false)
        || e["wr"].as_array().map(|a| !a.is_empty()).unwrap_or(false)
        || e["res"].as_i64().unwrap_or(0) != 0
}
