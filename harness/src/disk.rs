//! Image-level driver (spec/DiskImage.tla, Trace_DiskImage.tla, Trace_TombLog.tla): runs workloads
//! on a real store behind the recording io engine, turns the completed device writes into page
//! descriptors with an independent parser of the on-disk format, enumerates crash points (every
//! write boundary, plus page-granular tears of the next write) by copying the partition files and
//! opening the copy with a fresh engine, and logs everything as an NDJSON trace.

use std::{
    collections::BTreeSet,
    io::Write,
    path::{Path, PathBuf},
};

use serde_json::{Value as J, json};

use crate::{
    gate::LogEntry,
    hybrid::{HybridCfg, HybridRunner, PAGE, parse_entries},
    mem::MemCfg,
};

fn xx64(b: &[u8]) -> u64 {
    twox_hash::XxHash64::oneshot(0, b)
}

/// Classify the pages of one block write.
pub fn describe_pages(data: &[u8]) -> Vec<J> {
    let n = data.len() / PAGE;
    let mut out: Vec<J> = vec![json!({"t": "raw"}); n];
    if n == 1 && data[..PAGE].iter().all(|b| *b == 0) {
        return vec![json!({"t": "zero"})];
    }
    // a write that is a sealed blob index (one page by default; `with_blob_index_size` makes it several pages: the
    // checksum covers all of them, the pages after the first are continuation pages)
    if (1..=4).contains(&n) {
        let p = &data[..n * PAGE];
        let sum = u64::from_be_bytes(p[0..8].try_into().unwrap());
        if xx64(&p[8..]) == sum {
            let count = u32::from_be_bytes(p[8..12].try_into().unwrap()) as usize;
            let mut es = vec![];
            for i in 0..count.min((n * PAGE - 12) / 24) {
                let e = &p[12 + i * 24..12 + (i + 1) * 24];
                let off = u32::from_be_bytes(e[16..20].try_into().unwrap()) as usize;
                let len = u32::from_be_bytes(e[20..24].try_into().unwrap()) as usize;
                es.push(json!({
                    "h": u64::from_be_bytes(e[0..8].try_into().unwrap()),
                    "seq": u64::from_be_bytes(e[8..16].try_into().unwrap()),
                    "off": off / PAGE,
                    "len": len.div_ceil(PAGE),
                }));
            }
            let mut v = vec![json!({"t": "idx", "es": es})];
            v.extend((1..n).map(|_| json!({"t": "idxc"})));
            return v;
        }
    }
    // otherwise: entries laid out back to back, each page aligned
    let mut off = 0usize;
    while off + 36 <= data.len() {
        let h = &data[off..off + 36];
        let key_len = u32::from_be_bytes(h[0..4].try_into().unwrap()) as usize;
        let value_len = u32::from_be_bytes(h[4..8].try_into().unwrap()) as usize;
        let magic = u32::from_be_bytes(h[32..36].try_into().unwrap());
        let len = 36 + key_len + value_len;
        if magic & 0xFFFF_FF00 != 0x9703_2700 || off + len > data.len() {
            if data[off..(off + PAGE).min(data.len())].iter().all(|b| *b == 0) {
                out[off / PAGE] = json!({"t": "zero"});
            }
            off += PAGE;
            continue;
        }
        let hash = u64::from_be_bytes(h[8..16].try_into().unwrap());
        let seq = u64::from_be_bytes(h[16..24].try_into().unwrap());
        let sum = u64::from_be_bytes(h[24..32].try_into().unwrap());
        let body = &data[off + 36..off + len];
        let pages = len.div_ceil(PAGE);
        let parsed = parse_entries(&data[off..off + pages * PAGE]);
        let ok = xx64(body) == sum && parsed.len() == 1 && parsed[0].0 != u64::MAX;
        for i in 0..pages {
            out[off / PAGE + i] = if ok {
                json!({"t": "ent", "k": parsed[0].0, "v": parsed[0].1, "h": hash, "seq": seq, "n": pages, "i": i})
            } else {
                json!({"t": "raw"})
            };
        }
        off += pages * PAGE;
    }
    out
}

fn tomb_slots(data: &[u8]) -> Vec<J> {
    data.chunks_exact(16)
        .filter_map(|c| {
            let h = u64::from_be_bytes(c[0..8].try_into().unwrap());
            let s = u64::from_be_bytes(c[8..16].try_into().unwrap());
            if s == 0 { None } else { Some(json!({"h": h, "seq": s})) }
        })
        .collect()
}

pub struct DiskRun {
    mcfg: MemCfg,
    hcfg: HybridCfg,
    runner: HybridRunner,
    keys: Vec<u64>,
    logged: BTreeSet<usize>,
    nv: u64,
    probes: usize,
    out: Vec<J>,
    /// no operation since the last restart
    fresh: bool,
    /// partition files as of the last "snapshot" operation (source of stale pages)
    old: Option<Vec<Vec<u8>>>,
}

fn copy_dir(from: &Path, to: &Path) -> std::io::Result<()> {
    let _ = std::fs::remove_dir_all(to);
    std::fs::create_dir_all(to)?;
    for e in std::fs::read_dir(from)? {
        let e = e?;
        std::fs::copy(e.path(), to.join(e.file_name()))?;
    }
    Ok(())
}

impl DiskRun {
    pub fn new(mcfg: &MemCfg, hcfg: &HybridCfg) -> Result<Self, String> {
        let mut runner = HybridRunner::new(mcfg, hcfg)?;
        runner.apply(&json!({"a": "init"}))?;
        let keys = runner.keys();
        let mut s = Self {
            mcfg: mcfg.clone(),
            hcfg: hcfg.clone(),
            runner,
            keys,
            logged: BTreeSet::new(),
            nv: 0,
            probes: 0,
            out: vec![json!({"a": "init"})],
            fresh: false,
            old: None,
        };
        s.log_writes();
        Ok(s)
    }

    fn first_block_partition(&self) -> u32 {
        if self.hcfg.tomblog { 1 } else { 0 }
    }

    fn write_event(&self, e: &LogEntry) -> Option<J> {
        let data = e.data.as_ref()?;
        if e.partition >= self.first_block_partition() {
            let b = e.partition - self.first_block_partition();
            let ps = describe_pages(data);
            if ps.len() == 1 && ps[0]["t"] == "zero" && e.offset == 0 {
                return Some(json!({"a": "clean", "b": b}));
            }
            Some(json!({"a": "w", "b": b, "o": e.offset as usize / PAGE, "ps": ps}))
        } else {
            Some(json!({"a": "tw", "p": e.offset as usize / PAGE, "ts": tomb_slots(data)}))
        }
    }

    /// Append events for device writes completed since the last call, in completion order.
    fn log_writes(&mut self) {
        for e in self.runner.gate.entries_from(0) {
            if e.write && e.done && !e.failed && !self.logged.contains(&e.id) {
                self.logged.insert(e.id);
                if let Some(ev) = self.write_event(&e) {
                    self.out.push(ev);
                }
            }
        }
    }

    fn lookups_live(&mut self) -> (Vec<i64>, Vec<u8>, Vec<u8>) {
        let ra: Vec<(i64, u8)> = self.keys.clone().iter().map(|k| self.runner.store_load_age(*k)).collect();
        let claimed = self.keys.clone().iter().map(|k| self.runner.may_contains(*k) as u8).collect();
        (ra.iter().map(|x| x.0).collect(), claimed, ra.iter().map(|x| x.1).collect())
    }

    /// Copy the partition files (optionally with the first `tear` pages of a pending write applied),
    /// open the copy with a fresh engine in the default (quiet) recovery mode, look every key up.
    fn probe(&mut self, torn: Option<(&LogEntry, usize)>) -> Result<Vec<i64>, String> {
        self.probes += 1;
        let src = self.runner.dir().to_path_buf();
        let dst = PathBuf::from(format!("{}-probe", src.display()));
        copy_dir(&src, &dst).map_err(|e| format!("copy: {e}"))?;
        if let Some((e, pages)) = torn {
            let name = format!("foyer-storage-direct-fs-{:08}", e.partition);
            let f = std::fs::OpenOptions::new().write(true).open(dst.join(name)).map_err(|e| format!("open: {e}"))?;
            use std::os::unix::fs::FileExt;
            let d = e.data.as_ref().ok_or("torn write without data")?;
            f.write_all_at(&d[..pages * PAGE], e.offset).map_err(|e| format!("tear: {e}"))?;
        }
        let mut h2 = self.hcfg.clone();
        h2.policy = "woi".into();
        let mut r2 = HybridRunner::with_dir(&self.mcfg, &h2, dst.clone())?;
        let opened = std::panic::catch_unwind(std::panic::AssertUnwindSafe(|| r2.apply(&json!({"a": "init"}))));
        let res: Vec<i64> = match opened {
            Ok(Ok(_)) => self.keys.iter().map(|k| r2.store_load(*k)).collect(),
            // the reopen failed or panicked: every key reads as -3
            _ => vec![-3; self.keys.len()],
        };
        drop(r2);
        let _ = std::fs::remove_dir_all(&dst);
        Ok(res)
    }

    pub fn apply(&mut self, op: &J) -> Result<(), String> {
        let a = op["a"].as_str().ok_or("op without name")?;
        let k = op.get("k").and_then(|x| x.as_u64()).unwrap_or(0);
        match a {
            "ins" => {
                self.nv += 1;
                self.out.push(json!({"a": "sub", "k": k, "v": self.nv}));
                self.runner.apply(&json!({"a": "ins", "k": k, "noturn": op.get("noturn").cloned().unwrap_or(json!(false))}))?;
            }
            "rem" => {
                self.out.push(json!({"a": "del", "k": k, "n": self.nv + 1}));
                self.runner.apply(&json!({"a": "rem", "k": k, "noturn": op.get("noturn").cloned().unwrap_or(json!(false))}))?;
            }
            "evict_all" | "hold" | "unhold" | "gate_on" => {
                self.runner.apply(op)?;
            }
            // release the held writes one at a time; after each, log it and probe the image
            "drain" => {
                let probes = op.get("probes").and_then(|x| x.as_bool()).unwrap_or(true);
                let tears = op.get("tears").and_then(|x| x.as_bool()).unwrap_or(true);
                // the acknowledgement of everything submitted so far is logged at the moment it is given
                let acked = self.runner.spawn_wait_flag_eager();
                let mut ack_logged = false;
                self.runner.turn_pub();
                for _ in 0..10_000 {
                    if !ack_logged && acked.load(std::sync::atomic::Ordering::SeqCst) {
                        ack_logged = true;
                        self.out.push(json!({"a": "ack"}));
                        if probes {
                            // a crash right at the acknowledgement
                            let res = self.probe(None)?;
                            self.out.push(json!({"a": "probe", "res": res}));
                        }
                    }
                    let pending = self.runner.gate.pending();
                    let Some(id) = pending.first().copied() else { break };
                    let e = self.runner.gate.entries_from(id)[0].clone();
                    if probes && e.write && e.partition >= self.first_block_partition() && tears {
                        let pages = e.len / PAGE;
                        for t in 1..pages {
                            let res = self.probe(Some((&e, t)))?;
                            let d = e.data.as_ref().unwrap();
                            self.out.push(json!({"a": "tprobe", "b": e.partition - self.first_block_partition(),
                                "o": e.offset as usize / PAGE, "ps": describe_pages(&d[..t * PAGE]), "res": res}));
                        }
                    }
                    self.runner.gate.release(id);
                    self.runner.turn_pub();
                    self.log_writes();
                    if probes && e.write {
                        let res = self.probe(None)?;
                        self.out.push(json!({"a": "probe", "res": res}));
                    }
                }
                self.runner.apply(&json!({"a": "gate_off"}))?;
                self.log_writes();
                if !ack_logged && acked.load(std::sync::atomic::Ordering::SeqCst) {
                    self.out.push(json!({"a": "ack"}));
                }
            }
            // hold reads as well as writes (the reclaimer reads the block it reclaims)
            // every block marked for imminent reclaim (guarded hook)
            "probation" => {
                self.runner.apply(op)?;
                self.out.push(json!({"a": "mark"}));
            }
            "gate_rw" => {
                self.runner.gate.set_hold(true, true);
            }
            // release the held device operations one at a time in a chosen order: "wf" = a read only when no
            // write is pending (reads slower than writes), "rf" = the opposite, "rand" = seeded random
            "drain_sched" => {
                let order = op.get("order").and_then(|x| x.as_str()).unwrap_or("wf").to_string();
                let mut rng = crate::mem::Lcg(op.get("seed").and_then(|x| x.as_u64()).unwrap_or(1));
                self.runner.turn_pub();
                let mut idle = 0;
                for _ in 0..100_000 {
                    let pending = self.runner.gate.pending();
                    if pending.is_empty() {
                        idle += 1;
                        if idle > 3 {
                            break;
                        }
                        self.runner.turn_pub();
                        continue;
                    }
                    idle = 0;
                    let log = self.runner.gate.entries_from(0);
                    let writes: Vec<usize> = pending.iter().copied().filter(|i| log[*i].write).collect();
                    let reads: Vec<usize> = pending.iter().copied().filter(|i| !log[*i].write).collect();
                    let id = match order.as_str() {
                        "wf" => writes.first().or(reads.first()).copied().unwrap(),
                        "rf" => reads.first().or(writes.first()).copied().unwrap(),
                        _ => pending[rng.below(pending.len())],
                    };
                    self.runner.gate.release(id);
                    self.runner.turn_pub();
                    self.log_writes();
                }
                self.runner.gate.set_hold(false, false);
                self.runner.gate.release_all();
                self.runner.turn_pub();
                self.log_writes();
            }
            "wait" => {
                self.runner.wait_flush()?;
                self.log_writes();
                self.out.push(json!({"a": "ack"}));
            }
            "q" => {
                self.log_writes();
                let (res, claimed, ages) = self.lookups_live();
                self.out.push(json!({"a": "q", "res": res, "claimed": claimed, "ages": ages, "reopened": self.fresh}));
            }
            "snapshot" => {
                self.old = Some(self.snapshot());
            }
            "faults" => {
                self.log_writes();
                let all = op.get("all").and_then(|x| x.as_bool()).unwrap_or(false);
                let seed = op.get("seed").and_then(|x| x.as_u64()).unwrap_or(1);
                let old = self.old.take();
                self.fault_probes(old.as_ref(), all, seed)?;
                self.old = old;
            }
            "probe" => {
                self.log_writes();
                let res = self.probe(None)?;
                self.out.push(json!({"a": "probe", "res": res}));
            }
            "reopen" => {
                self.runner.apply(&json!({"a": "close"}))?;
                self.log_writes();
                self.runner.apply(&json!({"a": "reopen"}))?;
                self.log_writes();
                self.fresh = true;
                return Ok(());
            }
            other => return Err(format!("unknown disk op {other}")),
        }
        if a != "q" && a != "probe" && a != "faults" && a != "snapshot" {
            self.fresh = false;
        }
        self.log_writes();
        Ok(())
    }

    pub fn finish(mut self, w: &mut impl Write, script: usize) -> std::io::Result<(usize, usize)> {
        self.log_writes();
        let n = self.out.len();
        for (j, ev) in self.out.iter().enumerate() {
            let mut ev = ev.clone();
            ev["script"] = json!(script);
            ev["step"] = json!(j);
            ev["mis"] = json!(false);
            writeln!(w, "{ev}")?;
        }
        Ok((n, self.probes))
    }
}

/// Workloads for the tombstone log (Trace_TombLog.tla): N keys loaded and flushed, batches of
/// flushed deletes, re-inserts, restarts, and probes of every key.
pub struct TombRun {
    runner: HybridRunner,
    n: u64,
    out: Vec<J>,
}

impl TombRun {
    pub fn new(mcfg: &MemCfg, hcfg: &HybridCfg) -> Result<Self, String> {
        let mut runner = HybridRunner::new(mcfg, hcfg)?;
        runner.apply(&json!({"a": "init"}))?;
        Ok(Self {
            runner,
            n: 0,
            out: vec![],
        })
    }

    pub fn apply(&mut self, op: &J) -> Result<(), String> {
        let a = op["a"].as_str().ok_or("op without name")?;
        match a {
            "load" => {
                self.n = op["n"].as_u64().ok_or("load without n")?;
                for k in 1..=self.n {
                    self.runner.apply(&json!({"a": "ins", "k": k}))?;
                }
                self.runner.wait_flush()?;
                self.runner.apply(&json!({"a": "evict_all"}))?;
                let log = self.runner.dir().join("foyer-storage-direct-fs-00000000");
                let pages = std::fs::metadata(&log).map_err(|e| format!("{log:?}: {e}"))?.len() as usize / PAGE;
                self.out.push(json!({"a": "init", "n": self.n, "pages": pages}));
            }
            "del" => {
                let ks: Vec<u64> = op["ks"].as_array().ok_or("del without ks")?.iter().filter_map(|x| x.as_u64()).collect();
                // one flushed batch
                self.runner.apply(&json!({"a": "hold"}))?;
                for k in ks.iter() {
                    self.runner.apply(&json!({"a": "rem", "k": k}))?;
                }
                self.runner.apply(&json!({"a": "unhold"}))?;
                self.runner.wait_flush()?;
                self.out.push(json!({"a": "del", "ks": ks}));
            }
            // insert and remove of each key inside ONE flushed batch (the entry and its tombstone travel together)
            "insdel" => {
                let ks: Vec<u64> = op["ks"].as_array().ok_or("insdel without ks")?.iter().filter_map(|x| x.as_u64()).collect();
                self.runner.apply(&json!({"a": "hold"}))?;
                for k in ks.iter() {
                    self.runner.apply(&json!({"a": "ins", "k": k}))?;
                    self.runner.apply(&json!({"a": "rem", "k": k}))?;
                }
                self.runner.apply(&json!({"a": "unhold"}))?;
                self.runner.wait_flush()?;
                self.out.push(json!({"a": "insdel", "ks": ks}));
            }
            "reins" => {
                let k = op["k"].as_u64().ok_or("reins without k")?;
                self.runner.apply(&json!({"a": "ins", "k": k}))?;
                self.runner.wait_flush()?;
                self.runner.apply(&json!({"a": "evict_all"}))?;
                self.out.push(json!({"a": "reins", "k": k}));
            }
            "reopen" => {
                self.runner.apply(&json!({"a": "close"}))?;
                self.runner.apply(&json!({"a": "reopen"}))?;
                self.out.push(json!({"a": "reopen"}));
            }
            "probe" => {
                let mut present = vec![];
                let mut absent = vec![];
                for k in 1..=self.n {
                    if self.runner.store_load(k) > 0 { present.push(k) } else { absent.push(k) }
                }
                self.out.push(json!({"a": "probe", "present": present, "absent": absent}));
            }
            other => return Err(format!("unknown tomb op {other}")),
        }
        Ok(())
    }

    pub fn finish(self, w: &mut impl Write, script: usize) -> std::io::Result<usize> {
        for (j, ev) in self.out.iter().enumerate() {
            let mut ev = ev.clone();
            ev["script"] = json!(script);
            ev["step"] = json!(j);
            ev["mis"] = json!(false);
            writeln!(w, "{ev}")?;
        }
        Ok(self.out.len())
    }
}

/// Classify every page of a whole block image (blob index pages are recognised by their checksum,
/// entries by magic + checksum from their first page).
pub fn describe_block(data: &[u8]) -> Vec<J> {
    let n = data.len() / PAGE;
    let mut out: Vec<J> = Vec::with_capacity(n);
    let mut p = 0;
    while p < n {
        let page = &data[p * PAGE..(p + 1) * PAGE];
        let one = describe_pages(page);
        if one[0]["t"] == "idx" || one[0]["t"] == "zero" {
            out.push(one[0].clone());
            p += 1;
            continue;
        }
        // an entry starting here?
        let key_len = u32::from_be_bytes(page[0..4].try_into().unwrap()) as usize;
        let value_len = u32::from_be_bytes(page[4..8].try_into().unwrap()) as usize;
        let magic = u32::from_be_bytes(page[32..36].try_into().unwrap());
        let pages = (36 + key_len + value_len).div_ceil(PAGE);
        if magic & 0xFFFF_FF00 == 0x9703_2700 && pages >= 1 && p + pages <= n {
            let d = describe_pages(&data[p * PAGE..(p + pages) * PAGE]);
            if d.len() == pages && d.iter().all(|x| x["t"] == "ent") {
                out.extend(d);
                p += pages;
                continue;
            }
        }
        out.push(json!({"t": "raw"}));
        p += 1;
    }
    out
}

#[derive(Clone)]
pub struct Fault {
    pub name: String,
    /// (partition, page, new page content)
    pub writes: Vec<(u32, usize, Vec<u8>)>,
}

impl DiskRun {
    fn read_partition(&self, dir: &Path, partition: u32) -> Vec<u8> {
        std::fs::read(dir.join(format!("foyer-storage-direct-fs-{partition:08}"))).unwrap_or_default()
    }

    /// Take a snapshot of all partition files (used later as "older generation" pages).
    pub fn snapshot(&self) -> Vec<Vec<u8>> {
        let nparts = self.hcfg.blocks as u32 + self.first_block_partition();
        (0..nparts).map(|p| self.read_partition(self.runner.dir(), p)).collect()
    }

    fn enumerate_faults(&self, now: &[Vec<u8>], old: Option<&Vec<Vec<u8>>>, all: bool, rng: &mut crate::mem::Lcg) -> Vec<Fault> {
        let first = self.first_block_partition() as usize;
        let mut faults = vec![];
        let used = |pg: &[u8]| pg.iter().any(|b| *b != 0);
        for (part, data) in now.iter().enumerate() {
            let npages = data.len() / PAGE;
            for page in 0..npages {
                let pg = &data[page * PAGE..(page + 1) * PAGE];
                // faults on never-written pages change nothing that is reachable: sample a few only
                if !used(pg) && !(all && page < 2) {
                    continue;
                }
                let at = |offs: &[usize], what: &str, faults: &mut Vec<Fault>| {
                    for o in offs {
                        let mut m = pg.to_vec();
                        m[*o] ^= 0x01 << (*o % 8);
                        faults.push(Fault { name: format!("flip:{what}@{o}"), writes: vec![(part as u32, page, m)] });
                    }
                };
                faults.push(Fault { name: "zero".into(), writes: vec![(part as u32, page, vec![0u8; PAGE])] });
                if part < first {
                    // tombstone log page: slots of (hash, sequence)
                    at(&[3, 11, 19, 27], "tombstone", &mut faults);
                    continue;
                }
                let d = describe_pages(pg);
                match d[0]["t"].as_str().unwrap_or("raw") {
                    "idx" => at(&[0, 7, 8, 11, 12, 20, 28, 32, 35, 300, PAGE - 1], "blobindex", &mut faults),
                    _ => {
                        // entry header fields: key_len 0..4, value_len 4..8, hash 8..16, sequence 16..24,
                        // checksum 24..32, magic 32..35, compression tag 35; then payload, then padding
                        at(&[0, 3, 4, 7, 8, 15, 16, 23, 24, 31, 32, 34, 35, 36, 44, 52, 60, 100, 2000, PAGE - 1], "entry", &mut faults);
                        if all {
                            for _ in 0..8 {
                                let o = rng.below(PAGE);
                                at(&[o], "random", &mut faults);
                            }
                        }
                    }
                }
                // misdirected: this page answered with the content of another page (same block, other block)
                let others: Vec<(usize, usize)> = {
                    let mut v = vec![];
                    for q in 0..npages {
                        if q != page && used(&data[q * PAGE..(q + 1) * PAGE]) {
                            v.push((part, q));
                        }
                    }
                    for (p2, d2) in now.iter().enumerate().skip(first) {
                        if p2 != part {
                            for q in 0..d2.len() / PAGE {
                                if used(&d2[q * PAGE..(q + 1) * PAGE]) && (all || q == page || q == 0 || q == 1) {
                                    v.push((p2, q));
                                }
                            }
                        }
                    }
                    v
                };
                for (p2, q) in others {
                    let other = now[p2][q * PAGE..(q + 1) * PAGE].to_vec();
                    // swap
                    faults.push(Fault {
                        name: format!("swap:{p2}/{q}"),
                        writes: vec![(part as u32, page, other.clone()), (p2 as u32, q, pg.to_vec())],
                    });
                    // misdirected read/write: copy without swapping
                    faults.push(Fault { name: format!("copy:{p2}/{q}"), writes: vec![(part as u32, page, other)] });
                }
                // stale sector: the page as it was at an earlier point of the workload
                if let Some(old) = old {
                    let o = &old[part][page * PAGE..(page + 1) * PAGE];
                    if o != pg {
                        faults.push(Fault { name: "stale".into(), writes: vec![(part as u32, page, o.to_vec())] });
                    }
                }
            }
        }
        faults
    }

    /// Apply every enumerated fault to a copy of the current (quiescent) image, open the copy with a
    /// fresh engine (quiet recovery), look every key up; one `fprobe` event per fault.
    pub fn fault_probes(&mut self, old: Option<&Vec<Vec<u8>>>, all: bool, seed: u64) -> Result<usize, String> {
        use std::os::unix::fs::FileExt;
        let now = self.snapshot();
        let mut rng = crate::mem::Lcg(seed);
        let faults = self.enumerate_faults(&now, old, all, &mut rng);
        let src = self.runner.dir().to_path_buf();
        let first = self.first_block_partition();
        let mut count = 0;
        for f in faults {
            let dst = PathBuf::from(format!("{}-fault", src.display()));
            copy_dir(&src, &dst).map_err(|e| format!("copy: {e}"))?;
            let mut blocks: std::collections::BTreeMap<u32, Vec<u8>> = Default::default();
            let mut tomb: Option<(usize, Vec<J>)> = None;
            for (part, page, content) in f.writes.iter() {
                let name = format!("foyer-storage-direct-fs-{part:08}");
                let file = std::fs::OpenOptions::new().write(true).open(dst.join(name)).map_err(|e| format!("open: {e}"))?;
                file.write_all_at(content, (*page * PAGE) as u64).map_err(|e| format!("write: {e}"))?;
                if *part >= first {
                    let d = blocks.entry(*part).or_insert_with(|| now[*part as usize].clone());
                    d[*page * PAGE..(*page + 1) * PAGE].copy_from_slice(content);
                } else {
                    tomb = Some((*page, tomb_slots(content)));
                }
            }
            let mut h2 = self.hcfg.clone();
            h2.policy = "woi".into();
            let res: Vec<i64> = {
                let opened = std::panic::catch_unwind(std::panic::AssertUnwindSafe(|| -> Result<Vec<i64>, String> {
                    let mut r2 = HybridRunner::with_dir(&self.mcfg, &h2, dst.clone())?;
                    r2.apply(&json!({"a": "init"}))?;
                    Ok(self.keys.iter().map(|k| r2.store_load(*k)).collect())
                }));
                match opened {
                    Ok(Ok(v)) => v,
                    Ok(Err(_)) => vec![-3; self.keys.len()],
                    Err(_) => vec![-4; self.keys.len()],
                }
            };
            let _ = std::fs::remove_dir_all(&dst);
            let bl: Vec<J> = blocks
                .iter()
                .map(|(part, data)| json!({"b": part - first, "ps": describe_block(data)}))
                .collect();
            let mut ev = json!({"a": "fprobe", "fault": f.name, "blocks": bl, "res": res});
            if let Some((p, ts)) = tomb {
                ev["tp"] = json!(p);
                ev["ts"] = json!(ts);
            } else {
                ev["tp"] = json!(-1);
                ev["ts"] = json!([]);
            }
            self.out.push(ev);
            count += 1;
        }
        self.probes += count;
        Ok(count)
    }
}
