//! Image-level driver (spec/DiskImage.tla, Trace_DiskImage.tla, Trace_TombLog.tla): runs workloads
//! on a real store behind the recording io engine, turns the completed device writes into page
//! descriptors with an independent parser of the on-disk format, enumerates crash points (every
//! write boundary, plus page-granular tears of the next write) by copying the partition files and
//! opening the copy with a fresh engine, and logs everything as an NDJSON trace.

use std::{
    collections::BTreeSet,
    io::Write,
    path::{Path, PathBuf},
};

use serde_json::{Value as J, json};

use crate::{
    gate::LogEntry,
    hybrid::{HybridCfg, HybridRunner, PAGE, parse_entries},
    mem::MemCfg,
};

fn xx64(b: &[u8]) -> u64 {
    twox_hash::XxHash64::oneshot(0, b)
}

/// Classify the pages of one block write.
pub fn describe_pages(data: &[u8]) -> Vec<J> {
    let n = data.len() / PAGE;
    let mut out: Vec<J> = vec![json!({"t": "raw"}); n];
    // a single page that is a sealed blob index
    if n == 1 {
        let p = &data[..PAGE];
        if p.iter().all(|b| *b == 0) {
            return vec![json!({"t": "zero"})];
        }
        let sum = u64::from_be_bytes(p[0..8].try_into().unwrap());
        if xx64(&p[8..]) == sum {
            let count = u32::from_be_bytes(p[8..12].try_into().unwrap()) as usize;
            let mut es = vec![];
            for i in 0..count.min((PAGE - 12) / 24) {
                let e = &p[12 + i * 24..12 + (i + 1) * 24];
                let off = u32::from_be_bytes(e[16..20].try_into().unwrap()) as usize;
                let len = u32::from_be_bytes(e[20..24].try_into().unwrap()) as usize;
                es.push(json!({
                    "h": u64::from_be_bytes(e[0..8].try_into().unwrap()),
                    "seq": u64::from_be_bytes(e[8..16].try_into().unwrap()),
                    "off": off / PAGE,
                    "len": len.div_ceil(PAGE),
                }));
            }
            return vec![json!({"t": "idx", "es": es})];
        }
    }
    // otherwise: entries laid out back to back, each page aligned
    let mut off = 0usize;
    while off + 36 <= data.len() {
        let h = &data[off..off + 36];
        let key_len = u32::from_be_bytes(h[0..4].try_into().unwrap()) as usize;
        let value_len = u32::from_be_bytes(h[4..8].try_into().unwrap()) as usize;
        let magic = u32::from_be_bytes(h[32..36].try_into().unwrap());
        let len = 36 + key_len + value_len;
        if magic & 0xFFFF_FF00 != 0x9703_2700 || off + len > data.len() {
            if data[off..(off + PAGE).min(data.len())].iter().all(|b| *b == 0) {
                out[off / PAGE] = json!({"t": "zero"});
            }
            off += PAGE;
            continue;
        }
        let hash = u64::from_be_bytes(h[8..16].try_into().unwrap());
        let seq = u64::from_be_bytes(h[16..24].try_into().unwrap());
        let sum = u64::from_be_bytes(h[24..32].try_into().unwrap());
        let body = &data[off + 36..off + len];
        let pages = len.div_ceil(PAGE);
        let parsed = parse_entries(&data[off..off + pages * PAGE]);
        let ok = xx64(body) == sum && parsed.len() == 1 && parsed[0].0 != u64::MAX;
        for i in 0..pages {
            out[off / PAGE + i] = if ok {
                json!({"t": "ent", "k": parsed[0].0, "v": parsed[0].1, "h": hash, "seq": seq, "n": pages, "i": i})
            } else {
                json!({"t": "raw"})
            };
        }
        off += pages * PAGE;
    }
    out
}

fn tomb_slots(data: &[u8]) -> Vec<J> {
    data.chunks_exact(16)
        .filter_map(|c| {
            let h = u64::from_be_bytes(c[0..8].try_into().unwrap());
            let s = u64::from_be_bytes(c[8..16].try_into().unwrap());
            if s == 0 { None } else { Some(json!({"h": h, "seq": s})) }
        })
        .collect()
}

pub struct DiskRun {
    mcfg: MemCfg,
    hcfg: HybridCfg,
    runner: HybridRunner,
    keys: Vec<u64>,
    logged: BTreeSet<usize>,
    nv: u64,
    probes: usize,
    out: Vec<J>,
    /// no operation since the last restart
    fresh: bool,
}

fn copy_dir(from: &Path, to: &Path) -> std::io::Result<()> {
    let _ = std::fs::remove_dir_all(to);
    std::fs::create_dir_all(to)?;
    for e in std::fs::read_dir(from)? {
        let e = e?;
        std::fs::copy(e.path(), to.join(e.file_name()))?;
    }
    Ok(())
}

impl DiskRun {
    pub fn new(mcfg: &MemCfg, hcfg: &HybridCfg) -> Result<Self, String> {
        let mut runner = HybridRunner::new(mcfg, hcfg)?;
        runner.apply(&json!({"a": "init"}))?;
        let keys = runner.keys();
        let mut s = Self {
            mcfg: mcfg.clone(),
            hcfg: hcfg.clone(),
            runner,
            keys,
            logged: BTreeSet::new(),
            nv: 0,
            probes: 0,
            out: vec![json!({"a": "init"})],
            fresh: false,
        };
        s.log_writes();
        Ok(s)
    }

    fn first_block_partition(&self) -> u32 {
        if self.hcfg.tomblog { 1 } else { 0 }
    }

    fn write_event(&self, e: &LogEntry) -> Option<J> {
        let data = e.data.as_ref()?;
        if e.partition >= self.first_block_partition() {
            let b = e.partition - self.first_block_partition();
            let ps = describe_pages(data);
            if ps.len() == 1 && ps[0]["t"] == "zero" && e.offset == 0 {
                return Some(json!({"a": "clean", "b": b}));
            }
            Some(json!({"a": "w", "b": b, "o": e.offset as usize / PAGE, "ps": ps}))
        } else {
            Some(json!({"a": "tw", "p": e.offset as usize / PAGE, "ts": tomb_slots(data)}))
        }
    }

    /// Append events for device writes completed since the last call, in completion order.
    fn log_writes(&mut self) {
        for e in self.runner.gate.entries_from(0) {
            if e.write && e.done && !e.failed && !self.logged.contains(&e.id) {
                self.logged.insert(e.id);
                if let Some(ev) = self.write_event(&e) {
                    self.out.push(ev);
                }
            }
        }
    }

    fn lookups_live(&mut self) -> (Vec<i64>, Vec<u8>) {
        let res = self.keys.clone().iter().map(|k| self.runner.store_load(*k)).collect();
        let claimed = self.keys.clone().iter().map(|k| self.runner.may_contains(*k) as u8).collect();
        (res, claimed)
    }

    /// Copy the partition files (optionally with the first `tear` pages of a pending write applied),
    /// open the copy with a fresh engine in the default (quiet) recovery mode, look every key up.
    fn probe(&mut self, torn: Option<(&LogEntry, usize)>) -> Result<Vec<i64>, String> {
        self.probes += 1;
        let src = self.runner.dir().to_path_buf();
        let dst = PathBuf::from(format!("{}-probe", src.display()));
        copy_dir(&src, &dst).map_err(|e| format!("copy: {e}"))?;
        if let Some((e, pages)) = torn {
            let name = format!("foyer-storage-direct-fs-{:08}", e.partition);
            let f = std::fs::OpenOptions::new().write(true).open(dst.join(name)).map_err(|e| format!("open: {e}"))?;
            use std::os::unix::fs::FileExt;
            let d = e.data.as_ref().ok_or("torn write without data")?;
            f.write_all_at(&d[..pages * PAGE], e.offset).map_err(|e| format!("tear: {e}"))?;
        }
        let mut h2 = self.hcfg.clone();
        h2.policy = "woi".into();
        let mut r2 = HybridRunner::with_dir(&self.mcfg, &h2, dst.clone())?;
        let opened = std::panic::catch_unwind(std::panic::AssertUnwindSafe(|| r2.apply(&json!({"a": "init"}))));
        let res: Vec<i64> = match opened {
            Ok(Ok(_)) => self.keys.iter().map(|k| r2.store_load(*k)).collect(),
            // the reopen failed or panicked: every key reads as -3
            _ => vec![-3; self.keys.len()],
        };
        drop(r2);
        let _ = std::fs::remove_dir_all(&dst);
        Ok(res)
    }

    pub fn apply(&mut self, op: &J) -> Result<(), String> {
        let a = op["a"].as_str().ok_or("op without name")?;
        let k = op.get("k").and_then(|x| x.as_u64()).unwrap_or(0);
        match a {
            "ins" => {
                self.nv += 1;
                self.out.push(json!({"a": "sub", "k": k, "v": self.nv}));
                self.runner.apply(&json!({"a": "ins", "k": k}))?;
            }
            "rem" => {
                self.out.push(json!({"a": "del", "k": k, "n": self.nv + 1}));
                self.runner.apply(&json!({"a": "rem", "k": k}))?;
            }
            "evict_all" | "hold" | "unhold" | "gate_on" => {
                self.runner.apply(op)?;
            }
            // release the held writes one at a time; after each, log it and probe the image
            "drain" => {
                let probes = op.get("probes").and_then(|x| x.as_bool()).unwrap_or(true);
                let tears = op.get("tears").and_then(|x| x.as_bool()).unwrap_or(true);
                // the acknowledgement of everything submitted so far is logged at the moment it is given
                let acked = self.runner.spawn_wait_flag();
                let mut ack_logged = false;
                self.runner.turn_pub();
                for _ in 0..10_000 {
                    if !ack_logged && acked.load(std::sync::atomic::Ordering::SeqCst) {
                        ack_logged = true;
                        self.out.push(json!({"a": "ack"}));
                    }
                    let pending = self.runner.gate.pending();
                    let Some(id) = pending.first().copied() else { break };
                    let e = self.runner.gate.entries_from(id)[0].clone();
                    if probes && e.write && e.partition >= self.first_block_partition() && tears {
                        let pages = e.len / PAGE;
                        for t in 1..pages {
                            let res = self.probe(Some((&e, t)))?;
                            let d = e.data.as_ref().unwrap();
                            self.out.push(json!({"a": "tprobe", "b": e.partition - self.first_block_partition(),
                                "o": e.offset as usize / PAGE, "ps": describe_pages(&d[..t * PAGE]), "res": res}));
                        }
                    }
                    self.runner.gate.release(id);
                    self.runner.turn_pub();
                    self.log_writes();
                    if probes && e.write {
                        let res = self.probe(None)?;
                        self.out.push(json!({"a": "probe", "res": res}));
                    }
                }
                self.runner.apply(&json!({"a": "gate_off"}))?;
                self.log_writes();
                if !ack_logged && acked.load(std::sync::atomic::Ordering::SeqCst) {
                    self.out.push(json!({"a": "ack"}));
                }
            }
            "wait" => {
                self.runner.wait_flush()?;
                self.log_writes();
                self.out.push(json!({"a": "ack"}));
            }
            "q" => {
                self.log_writes();
                let (res, claimed) = self.lookups_live();
                self.out.push(json!({"a": "q", "res": res, "claimed": claimed, "reopened": self.fresh}));
            }
            "probe" => {
                self.log_writes();
                let res = self.probe(None)?;
                self.out.push(json!({"a": "probe", "res": res}));
            }
            "reopen" => {
                self.runner.apply(&json!({"a": "close"}))?;
                self.log_writes();
                self.runner.apply(&json!({"a": "reopen"}))?;
                self.log_writes();
                self.fresh = true;
                return Ok(());
            }
            other => return Err(format!("unknown disk op {other}")),
        }
        if a != "q" && a != "probe" {
            self.fresh = false;
        }
        self.log_writes();
        Ok(())
    }

    pub fn finish(mut self, w: &mut impl Write, script: usize) -> std::io::Result<(usize, usize)> {
        self.log_writes();
        let n = self.out.len();
        for (j, ev) in self.out.iter().enumerate() {
            let mut ev = ev.clone();
            ev["script"] = json!(script);
            ev["step"] = json!(j);
            ev["mis"] = json!(false);
            writeln!(w, "{ev}")?;
        }
        Ok((n, self.probes))
    }
}

/// Workloads for the tombstone log (Trace_TombLog.tla): N keys loaded and flushed, batches of
/// flushed deletes, re-inserts, restarts, and probes of every key.
pub struct TombRun {
    runner: HybridRunner,
    n: u64,
    out: Vec<J>,
}

impl TombRun {
    pub fn new(mcfg: &MemCfg, hcfg: &HybridCfg) -> Result<Self, String> {
        let mut runner = HybridRunner::new(mcfg, hcfg)?;
        runner.apply(&json!({"a": "init"}))?;
        Ok(Self {
            runner,
            n: 0,
            out: vec![],
        })
    }

    pub fn apply(&mut self, op: &J) -> Result<(), String> {
        let a = op["a"].as_str().ok_or("op without name")?;
        match a {
            "load" => {
                self.n = op["n"].as_u64().ok_or("load without n")?;
                for k in 1..=self.n {
                    self.runner.apply(&json!({"a": "ins", "k": k}))?;
                }
                self.runner.wait_flush()?;
                self.runner.apply(&json!({"a": "evict_all"}))?;
                let log = self.runner.dir().join("foyer-storage-direct-fs-00000000");
                let pages = std::fs::metadata(&log).map_err(|e| format!("{log:?}: {e}"))?.len() as usize / PAGE;
                self.out.push(json!({"a": "init", "n": self.n, "pages": pages}));
            }
            "del" => {
                let ks: Vec<u64> = op["ks"].as_array().ok_or("del without ks")?.iter().filter_map(|x| x.as_u64()).collect();
                // one flushed batch
                self.runner.apply(&json!({"a": "hold"}))?;
                for k in ks.iter() {
                    self.runner.apply(&json!({"a": "rem", "k": k}))?;
                }
                self.runner.apply(&json!({"a": "unhold"}))?;
                self.runner.wait_flush()?;
                self.out.push(json!({"a": "del", "ks": ks}));
            }
            "reins" => {
                let k = op["k"].as_u64().ok_or("reins without k")?;
                self.runner.apply(&json!({"a": "ins", "k": k}))?;
                self.runner.wait_flush()?;
                self.runner.apply(&json!({"a": "evict_all"}))?;
                self.out.push(json!({"a": "reins", "k": k}));
            }
            "reopen" => {
                self.runner.apply(&json!({"a": "close"}))?;
                self.runner.apply(&json!({"a": "reopen"}))?;
                self.out.push(json!({"a": "reopen"}));
            }
            "probe" => {
                let mut present = vec![];
                let mut absent = vec![];
                for k in 1..=self.n {
                    if self.runner.store_load(k) > 0 { present.push(k) } else { absent.push(k) }
                }
                self.out.push(json!({"a": "probe", "present": present, "absent": absent}));
            }
            other => return Err(format!("unknown tomb op {other}")),
        }
        Ok(())
    }

    pub fn finish(self, w: &mut impl Write, script: usize) -> std::io::Result<usize> {
        for (j, ev) in self.out.iter().enumerate() {
            let mut ev = ev.clone();
            ev["script"] = json!(script);
            ev["step"] = json!(j);
            ev["mis"] = json!(false);
            writeln!(w, "{ev}")?;
        }
        Ok(self.out.len())
    }
}
