"""Shared plumbing of the check driver: harness build, TLC invocation and output parsing,
evidence / replay files, known findings.

Exit codes of a check: 0 held, 1 VIOLATION (with replay file), 2 tool error (never a VIOLATION line).
"""
import json
import os
import re
import shutil
import subprocess
import threading
import sys
import time

VERIF = os.path.dirname(os.path.dirname(os.path.abspath(__file__)))
SPEC = os.path.join(VERIF, "spec")
HARNESS_DIR = os.path.join(VERIF, "harness")
HARNESS = os.path.join(HARNESS_DIR, "target", "debug", "harness")
EVIDENCE = os.path.join(VERIF, "evidence")
REPLAY = os.path.join(EVIDENCE, "replay")
REPO = "/repo"


class ToolError(Exception):
    pass


def log(msg):
    print(f"[check] {msg}", flush=True)


def seed():
    try:
        return int(os.environ.get("VERIF_SEED", "1"))
    except ValueError:
        return 1


def work_dir(name):
    base = os.environ.get("VERIF_WORK", os.path.join(VERIF, "work"))
    d = os.path.join(base, name)
    shutil.rmtree(d, ignore_errors=True)
    os.makedirs(d, exist_ok=True)
    return d


def build_harness():
    t = time.time()
    env = dict(os.environ, CARGO_NET_OFFLINE="true")
    p = subprocess.run(
        ["cargo", "build", "--offline", "--quiet"], cwd=HARNESS_DIR, env=env, capture_output=True, text=True
    )
    if p.returncode != 0:
        sys.stderr.write(p.stdout[-4000:] + p.stderr[-8000:])
        raise ToolError("harness build failed (does /repo still compile?)")
    log(f"harness built in {time.time() - t:.1f}s")


def write_atomic(path, content):
    """(Re)write a file other processes may be reading: nothing is touched if the content is already there, else
    the new content appears at once (several threads prepare the same model directory while TLC processes of
    their siblings are parsing it)."""
    try:
        with open(path) as f:
            if f.read() == content:
                return
    except OSError:
        pass
    tmp = f"{path}.{os.getpid()}.{threading.get_ident()}.tmp"
    with open(tmp, "w") as f:
        f.write(content)
    os.replace(tmp, path)


def copy_specs(dst, names=None):
    for f in os.listdir(SPEC):
        if f.endswith(".tla") and (names is None or f[:-4] in names):
            with open(os.path.join(SPEC, f)) as src:
                write_atomic(os.path.join(dst, f), src.read())


TLC_JAR = "/opt/veriftools/tla/tla2tools.jar"


def run_tlc(cwd, root, cfg, workers=1, trace=None, timeout=900, simulate=None, dfs_queue=False, cont=False,
            out_file=None, heap="8g", env_extra=None):
    """Run TLC; a run that dies in the front end without naming a parse or semantic error (seen once, in a fresh
    copy of the sandbox with many TLC processes starting at the same time: the standard modules are unpacked to
    /tmp on every start) is repeated, twice at most."""
    for attempt in range(3):
        r = _run_tlc(cwd, root, cfg, workers, trace, timeout, simulate, dfs_queue, cont, out_file, heap, env_extra)
        e = r.get("error") or ""
        if "Parsing or semantic analysis failed" in e and "Semantic errors" not in r["out"] and "Parse Error" not in r["out"] \
                and "Was expecting" not in r["out"] and attempt < 2:
            time.sleep(2 + attempt)
            continue
        return r
    return r


def _run_tlc(cwd, root, cfg, workers=1, trace=None, timeout=900, simulate=None, dfs_queue=False, cont=False,
             out_file=None, heap="8g", env_extra=None):
    """Run TLC; returns dict(rc, out (text, truncated if out_file), stats...)."""
    env = dict(os.environ)
    jopts = "-Xss1g"
    if dfs_queue:
        jopts += " -Dtlc2.tool.queue.IStateQueue=StateDeque"
    env["JAVA_TOOL_OPTIONS"] = jopts
    if trace:
        env["TRACE"] = trace
    if env_extra:
        env.update(env_extra)
    meta = os.path.join(cwd, "states_" + root + "_" + os.path.basename(cfg))
    # TLC unpacks the standard modules into java.io.tmpdir on every start and never removes them: give every run
    # its own directory next to its state directory and remove it afterwards
    jtmp = meta + "_tmp"
    os.makedirs(jtmp, exist_ok=True)
    env["JAVA_TOOL_OPTIONS"] = jopts + f" -Djava.io.tmpdir={jtmp}"
    gc = ["-XX:+UseSerialGC"] if workers == 1 else ["-XX:+UseParallelGC", f"-XX:ParallelGCThreads={max(2, workers)}"]
    if workers == 1 and heap == "8g":
        heap = "3g"
    cmd = ["java", f"-Xmx{heap}"] + gc + ["-cp", TLC_JAR + ":" + os.path.dirname(TLC_JAR) + "/*",
           "tlc2.TLC", "-workers", str(workers), "-metadir", meta, "-cleanup", "-noGenerateSpecTE"]
    if cont:
        cmd.append("-continue")
    if simulate:
        cmd += ["-simulate", simulate]
    cmd += ["-config", cfg, root + ".tla"]
    t = time.time()
    try:
        if out_file:
            with open(out_file, "w") as f:
                p = subprocess.run(cmd, cwd=cwd, env=env, stdout=f, stderr=subprocess.STDOUT, timeout=timeout)
            out = tail_filtered(out_file)
        else:
            p = subprocess.run(cmd, cwd=cwd, env=env, capture_output=True, text=True, timeout=timeout)
            out = p.stdout + p.stderr
    except subprocess.TimeoutExpired:
        raise ToolError(f"TLC timed out after {timeout}s on {root}/{cfg}")
    finally:
        shutil.rmtree(meta, ignore_errors=True)
        shutil.rmtree(jtmp, ignore_errors=True)
    r = {"rc": p.returncode, "out": out, "wall": time.time() - t}
    m = re.search(r"(\d+) states generated, (\d+) distinct states found", out)
    if m:
        r["generated"] = int(m.group(1))
        r["distinct"] = int(m.group(2))
    m = re.search(r'<<"CONSUMED", (\d+), (\d+)>>', out)
    if m:
        r["consumed"] = int(m.group(1))
        r["trace_len"] = int(m.group(2))
    r["violated"] = re.findall(r"Invariant (\S+) is violated", out)
    r["prop_violated"] = re.findall(r"Action property (\S+) is violated|Temporal properties were violated", out)
    r["error"] = None
    if "Error:" in out and not r["violated"] and not r["prop_violated"]:
        r["error"] = out[out.index("Error:"):][:3000]
    return r


def tail_filtered(path, keep=400):
    """Last lines of a TLC log that are not emitted scripts."""
    lines = []
    with open(path, errors="replace") as f:
        for line in f:
            if line.startswith('"') or line.startswith("{"):
                continue
            lines.append(line)
            if len(lines) > 4 * keep:
                lines = lines[-keep:]
    return "".join(lines[-keep:])


def tlc_must_pass(r, what):
    if r.get("error"):
        raise ToolError(f"TLC error in {what}: {r['error'][:1500]}")
    if r["violated"] or r["prop_violated"]:
        raise ToolError(
            f"model-level failure in {what} (a failure of the model alone is never reported as a violation "
            f"of the code; the model is wrong): {r['violated']} {r['prop_violated']}\n{r['out'][-3000:]}"
        )
    if "distinct" not in r:
        raise ToolError(f"TLC produced no statistics in {what}:\n{r['out'][-3000:]}")


class Hang(Exception):
    """A driver script did not finish inside the code under test (watchdog of the harness): data."""


class Aborted(Exception):
    """The code under test killed the harness process (abort / signal): data, not a tool error."""


def run_harness(args, timeout=1800):
    p = subprocess.run([HARNESS] + args, capture_output=True, text=True, timeout=timeout)
    if p.returncode < 0 or p.returncode in (134, 139):
        raise Aborted(f"harness {args[0]} was killed from inside the code under test (rc={p.returncode}): "
                      f"{p.stderr[-1500:]}")
    if p.returncode == 4:
        raise Hang(p.stderr[-500:])
    if p.returncode != 0:
        raise ToolError(f"harness {' '.join(args[:1])} failed rc={p.returncode}: {p.stderr[-3000:]}")
    return p.stdout


def load_known():
    p = os.path.join(VERIF, "KNOWN_FINDINGS.json")
    if not os.path.exists(p):
        return []
    with open(p) as f:
        return json.load(f)


def write_evidence(pid, tier, level, coverage, assumptions, wall, violations):
    os.makedirs(EVIDENCE, exist_ok=True)
    ev = {
        "property_id": pid,
        "tier": tier,
        "seed": seed(),
        "level": level,
        "coverage": coverage,
        "assumptions": assumptions,
        "wall_s": round(wall, 1),
        "violations": violations,
    }
    with open(os.path.join(EVIDENCE, pid + ".json"), "w") as f:
        json.dump(ev, f, indent=1)


def write_replay(pid, obj):
    os.makedirs(REPLAY, exist_ok=True)
    n = 0
    while os.path.exists(os.path.join(REPLAY, f"{pid}-{n}.json")):
        n += 1
    path = os.path.join(REPLAY, f"{pid}-{n}.json")
    with open(path, "w") as f:
        json.dump(obj, f, indent=1)
    return path


def tla_value(v):
    """Python value -> TLA+ expression (for generated root modules)."""
    if isinstance(v, bool):
        return "TRUE" if v else "FALSE"
    if isinstance(v, int):
        return str(v)
    if isinstance(v, str):
        return '"' + v + '"'
    if isinstance(v, (set, frozenset)):
        return "{" + ", ".join(sorted(tla_value(x) for x in v)) + "}"
    if isinstance(v, (list, tuple)):
        return "<<" + ", ".join(tla_value(x) for x in v) + ">>"
    if isinstance(v, dict):
        if all(isinstance(k, int) for k in v):
            return "(" + " @@ ".join(f"{k} :> {tla_value(x)}" for k, x in sorted(v.items())) + ")"
        return "[" + ", ".join(f"{k} |-> {tla_value(x)}" for k, x in v.items()) + "]"
    raise ValueError(v)


def last_var(out, name):
    """Value of variable `name` in the last state TLC printed (values may span several lines)."""
    ms = list(re.finditer(r"^/\\ " + re.escape(name) + r" = (.*?)(?=^/\\ |^\s*$|^State |\Z)", out, re.S | re.M))
    if not ms:
        return "?"
    return " ".join(ms[-1].group(1).split())
