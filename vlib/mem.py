"""Memory-tier pipeline (spec/MemCache.tla): model check, emit edge scripts / random behaviours,
replay them on the real foyer_memory::Cache, validate recorded traces with TLC.

A *profile* fixes the constants of MC_MemCache for one run.
"""
import concurrent.futures as cf
import json
import os
import time

from . import core

ALL_OPS = ["insert", "get", "touch", "contains", "clone", "drop", "remove", "clear", "resize", "evict_all",
           "flush", "drop_cache"]

# ratios whose f64 product equals the integer formula of the spec (harness prechecks this anyway)
DEFAULT_CFG = dict(hiNum=1, hiDen=2, wNum=1, wDen=4, pNum=1, pDen=2, sNum=1, sDen=2, gNum=1, gDen=1, thr=1,
                   decay=0)


def profile(name, algo, **kw):
    p = dict(
        name=name, algo=algo, shards=1, keys=[1, 2, 3], hash={1: 0, 2: 0, 3: 1},
        cfg=dict(DEFAULT_CFG), weights=[1, 2], hints=["normal"], phantoms=[False], caps=[0, 1, 3],
        init_caps=[2, 3], max_ins=3, max_steps=3, max_held=2, ops=list(ALL_OPS),
    )
    if algo == "lru":
        p["hints"] = ["normal", "low"]
    for k, v in kw.items():
        if k == "cfg":
            p["cfg"].update(v)
        else:
            p[k] = v
    return p


def pins(algo):
    return algo == "lru"


def write_model(d, p, emit, view):
    """Generate root module + cfg for MC_MemCache."""
    core.copy_specs(d, {"MemCache", "MC_MemCache"})
    cfg = dict(p["cfg"], pins=pins(p["algo"]), initCaps=set(p["init_caps"]))
    root = "MCrun"
    with open(os.path.join(d, root + ".tla"), "w") as f:
        f.write(f"---- MODULE {root} ----\nEXTENDS MC_MemCache\n")
        f.write(f"c_Hash == {core.tla_value({int(k): v for k, v in p['hash'].items()})}\n")
        f.write(f"c_Cfg == {core.tla_value(cfg)}\n====\n")
    lines = [
        "SPECIFICATION MCSpec", "CONSTANTS",
        f"  Keys = {core.tla_value(set(p['keys']))}", "  Hash <- c_Hash", f"  Shards = {p['shards']}",
        f"  Algo = \"{p['algo']}\"", "  Cfg <- c_Cfg",
        f"  Weights = {core.tla_value(set(p['weights']))}", f"  Hints = {core.tla_value(set(p['hints']))}",
        f"  Phantoms = {core.tla_value(set(p['phantoms']))}", f"  Caps = {core.tla_value(set(p['caps']))}",
        f"  MaxIns = {p['max_ins']}", f"  MaxSteps = {p['max_steps']}", f"  MaxHeld = {p['max_held']}",
        f"  OpSet = {core.tla_value(set(p['ops']))}", f"  Emit = \"{emit}\"", "CHECK_DEADLOCK FALSE",
    ]
    if emit == "none":
        lines += ["INVARIANT Inv", "PROPERTIES MinimalEviction PinnedNeverVictim"]
    if view:
        lines += ["VIEW MCView"]
    cfgname = f"MC_{emit}.cfg"
    with open(os.path.join(d, cfgname), "w") as f:
        f.write("\n".join(lines) + "\n")
    return root, cfgname


def harness_cfg(d, p):
    path = os.path.join(d, "cfg.json")
    with open(path, "w") as f:
        json.dump({"algo": p["algo"], "shards": p["shards"],
                   "hash": {str(k): v for k, v in p["hash"].items()},
                   "cfg": {k: v for k, v in p["cfg"].items() if k != "decay"},
                   "reentrant": bool(p.get("reentrant", False)),
                   "lookup_via_fetch": bool(p.get("lookup_via_fetch", False)),
                   "shadow_no_listener": bool(p.get("shadow_no_listener", False))}, f)
    return path


def model_check(d, p, workers, timeout=3000):
    root, cfg = write_model(d, p, "none", view=False)
    r = core.run_tlc(d, root, cfg, workers=workers, timeout=timeout)
    core.tlc_must_pass(r, f"MC_MemCache[{p['name']}]")
    return r


def emit_edges(d, p, timeout=3000):
    root, cfg = write_model(d, p, "edges", view=True)
    out = os.path.join(d, "edges.txt")
    r = core.run_tlc(d, root, cfg, workers=1, timeout=timeout, out_file=out)
    core.tlc_must_pass(r, f"edge emission[{p['name']}]")
    return out, r


def emit_sim(d, p, num, seed, timeout=900):
    root, cfg = write_model(d, p, "sim", view=False)
    out = os.path.join(d, "sim.txt")
    # every behaviour is cut at MaxSteps by the spec; depth leaves room for the initial state
    r = core.run_tlc(d, root, cfg, workers=1, timeout=timeout, out_file=out,
                     simulate=f"num={num}", env_extra={})
    if r.get("error"):
        raise core.ToolError(f"TLC simulate error [{p['name']}]: {r['error'][:1500]}")
    return out, r


def replay(d, p, scripts, tag, sample=20, threads=8):
    res = os.path.join(d, f"replay_{tag}.json")
    trace = os.path.join(d, f"trace_{tag}.ndjson")
    core.run_harness(["mem-replay", "--cfg", harness_cfg(d, p), "--scripts", scripts, "--out", res,
                      "--trace", trace, "--trace-sample", str(sample), "--threads", str(threads)])
    with open(res) as f:
        return json.load(f), trace


def random_traces(d, p, seed, num, length):
    """Random behaviours driven by the harness itself (implementation -> specification direction)."""
    prm = os.path.join(d, "rand.json")
    with open(prm, "w") as f:
        keys = [k for k in p["keys"] if k != p.get("reserve")]
        json.dump({"keys": keys, "reserve": p.get("reserve"), "weights": p["weights"], "hints": p["hints"],
                   "phantoms": p["phantoms"],
                   "caps": p["caps"], "init_caps": p["init_caps"], "ops": p["ops"], "max_held": p["max_held"],
                   "max_ins": p["max_ins"], "len": length, "num": num}, f)
    trace = os.path.join(d, "trace_rand.ndjson")
    out = core.run_harness(["mem-random", "--cfg", harness_cfg(d, p), "--params", prm, "--trace", trace,
                            "--seed", str(seed)])
    return trace, json.loads(out.strip().splitlines()[-1])


def write_trace_model(d, p, kind):
    """kind: 'exact' (Trace_MemCache with the profile's algorithm) or 'diag' (Trace_MemDiag)."""
    if kind == "exact":
        core.copy_specs(d, {"MemCache", "Trace_MemCache"})
        root = "TRexact"
        cfg = dict(p["cfg"], pins=pins(p["algo"]), initCaps=set(p["init_caps"]))
        core.write_atomic(os.path.join(d, root + ".tla"),
                          f"---- MODULE {root} ----\nEXTENDS Trace_MemCache\n"
                          f"c_Hash == {core.tla_value({int(k): v for k, v in p['hash'].items()})}\n"
                          f"c_Cfg == {core.tla_value(cfg)}\n====\n")
        lines = ["SPECIFICATION TraceSpec", "CONSTANTS", f"  Keys = {core.tla_value(set(p['keys']))}",
                 "  Hash <- c_Hash", f"  Shards = {p['shards']}", f"  Algo = \"{p['algo']}\"", "  Cfg <- c_Cfg",
                 "INVARIANT TraceInv", "PROPERTIES MinimalEviction PinnedNeverVictim",
                 "POSTCONDITION Consumed", "CHECK_DEADLOCK FALSE"]
    else:
        core.copy_specs(d, {"Trace_MemDiag"})
        root = "TRdiag"
        core.write_atomic(os.path.join(d, root + ".tla"),
                          f"---- MODULE {root} ----\nEXTENDS Trace_MemDiag\n"
                          f"c_Hash == {core.tla_value({int(k): v for k, v in p['hash'].items()})}\n====\n")
        lines = ["SPECIFICATION Spec", "CONSTANTS", f"  Keys = {core.tla_value(set(p['keys']))}",
                 "  Hash <- c_Hash", f"  Shards = {p['shards']}",
                 f"  Pins = {'TRUE' if pins(p['algo']) else 'FALSE'}",
                 "POSTCONDITION Consumed", "CHECK_DEADLOCK FALSE"]
    return root, lines


def split_trace(trace_path):
    """trace lines grouped per script: returns (ok_scripts, mis_scripts) as lists of lists of lines."""
    ok, mis = {}, {}
    with open(trace_path) as f:
        for line in f:
            ev = json.loads(line)
            (mis if ev.get("mis") else ok).setdefault(ev["script"], []).append(line)
    return list(ok.values()), list(mis.values())


def exact_rejections(d, p, scripts, mode, tag, max_rounds=8):
    """TLC validation of per-script traces against the concrete spec (Trace_MemCache, ObsMode=mode;
    scripts are concatenated, an 'init' line resets). Returns (accepted_count, rejections) where a
    rejection is {script (index into scripts), line_in_script, line} or, when an invariant of the
    concrete model is false in a state the real execution conforms to, {invariant, out}."""
    if not scripts:
        return 0, []
    root, lines = write_trace_model(d, p, "exact")
    cfgname = f"TRexact_{mode}_{tag}.cfg"
    with open(os.path.join(d, cfgname), "w") as f:
        if mode == "victims":
            lines = [x for x in lines if not x.startswith("PROPERTIES")]
        f.write("\n".join(lines).replace("CONSTANTS", f"CONSTANTS\n  ObsMode = \"{mode}\"") + "\n")
    rejections = []
    accepted = 0
    base = 0
    pending = list(scripts)
    rounds = 0
    while pending and rounds < max_rounds:
        rounds += 1
        tpath = os.path.join(d, f"exact_{mode}_{tag}_{rounds}.ndjson")
        with open(tpath, "w") as f:
            for s in pending:
                f.writelines(s)
        r = core.run_tlc(d, root, cfgname, workers=1, trace=tpath, dfs_queue=True, timeout=900)
        if r.get("error"):
            raise core.ToolError(f"TLC error in exact trace validation: {r['error'][:2000]}")
        if r["violated"] or r["prop_violated"]:
            rejections.append({"invariant": r["violated"] or r["prop_violated"], "out": r["out"][-2500:]})
            break
        if "consumed" not in r:
            raise core.ToolError(f"no CONSUMED line from TLC:\n{r['out'][-2000:]}")
        if r["consumed"] == r["trace_len"]:
            accepted += len(pending)
            pending = []
            break
        n = r["consumed"]
        acc = 0
        for i, s in enumerate(pending):
            if n < acc + len(s):
                rejections.append({"script": base + i, "line_in_script": n - acc + 1,
                                   "line": json.loads(s[n - acc])})
                accepted += i
                base += i + 1
                pending = pending[i + 1:]
                break
            acc += len(s)
        else:
            raise core.ToolError("could not locate rejected line")
    return accepted, rejections


def validate_diag(d, p, scripts, prop, tag):
    """Per-property monitor on per-script traces. Returns list of violations
    [{script_lines, line, bad}] (at most one per TLC run; each offending script is re-run alone)."""
    if not scripts:
        return []
    root, lines = write_trace_model(d, p, "diag")
    cfgname = f"TRdiag_{prop}_{tag}.cfg"
    with open(os.path.join(d, cfgname), "w") as f:
        f.write("\n".join(lines + [f"INVARIANT NoViolation_{prop}"]) + "\n")
    out = []
    pending = list(scripts)
    rounds = 0
    while pending and rounds < 25:
        rounds += 1
        tpath = os.path.join(d, f"diag_{prop}_{tag}_{rounds}.ndjson")
        with open(tpath, "w") as f:
            for s in pending:
                f.writelines(s)
        r = core.run_tlc(d, root, cfgname, workers=1, trace=tpath, dfs_queue=True, timeout=900)
        if r.get("error"):
            raise core.ToolError(f"TLC error in per-property trace validation: {r['error'][:2000]}")
        if not r["violated"]:
            if r.get("consumed") != r.get("trace_len"):
                raise core.ToolError(f"monitor did not consume the whole trace:\n{r['out'][-2000:]}")
            break
        # locate the line: the last state printed has l = index of the next line
        import re
        ls = re.findall(r"/\\ l = (\d+)", r["out"])
        bads = [core.last_var(r["out"], "bad")]
        line_no = int(ls[-1]) - 1  # 1-based index of the offending line
        acc = 0
        for i, s in enumerate(pending):
            if line_no <= acc + len(s):
                out.append({"script": [json.loads(x) for x in s], "line_in_script": line_no - acc,
                            "bad": bads[-1] if bads else "?"})
                pending = pending[i + 1:]
                break
            acc += len(s)
        else:
            raise core.ToolError("could not locate offending line")
    return out
