"""Checks decided with spec/Hybrid.tla: C01, C12, C15, C17 (disk part)."""
import concurrent.futures as cf
import json
import os
import random
import re
import time

from . import core, mem

ALL_OPS = ["ins", "rem", "get", "fetch", "evict_all", "hold", "gate", "close"]


def profile(name, policy, **kw):
    p = dict(name=name, policy=policy, algo="fifo", shards=1, keys=[1, 2, 3], hash={1: 5, 2: 5, 3: 6},
             keyloc={1: "default", 2: "default", 3: "default"}, memcap=2, flush_on_close=True, tomblog=True,
             ops=list(ALL_OPS), max_steps=5, max_ins=3, bufcap=128, reject=[], writer=False, cfg=dict(mem.DEFAULT_CFG))
    p.update(kw)
    return p


def profiles_for(pid, tier):
    th = tier == "thorough"
    d = 6 if th else 5
    edge = []
    if pid == "C01":
        edge.append(profile("woe-fifo", "woe", max_steps=d))
        edge.append(profile("woi-fifo", "woi", max_steps=d))
        edge.append(profile("woe-ondisk", "woe", keyloc={1: "default", 2: "ondisk", 3: "ondisk"}, max_steps=d - 1,
                            hash={1: 5, 2: 6, 3: 7}))
        # disk-only inserts (placement advice / storage writer) whose returned handle the caller keeps for a while
        for pol in ("woe", "woi"):
            edge.append(profile(f"{pol}-writer-held", pol, keys=[1, 2], hash={1: 5, 2: 6}, keyloc={1: "ondisk", 2: "default"},
                                ops=["ins", "ins_h", "rem", "get", "evict_all"], max_steps=d, max_ins=3, writer=True))
            edge.append(profile(f"{pol}-ondisk-held", pol, keys=[1, 2], hash={1: 5, 2: 6}, keyloc={1: "ondisk", 2: "default"},
                                ops=["ins", "ins_h", "rem", "get", "evict_all", "hold"], max_steps=d + 1, max_ins=3))
        edge.append(profile("woi-lru-evictall", "woi", algo="lru", memcap=9, max_steps=d - 1, hash={1: 5, 2: 6, 3: 7}))
        edge.append(profile("woe-s3fifo-evictall", "woe", algo="s3fifo", memcap=9, max_steps=d - 1))
        # clear() while entries are in memory, in the write queue (flush held just before) and on disk
        for pol in ("woe", "woi"):
            edge.append(profile(f"{pol}-clear", pol, keys=[1, 2], hash={1: 5, 2: 6}, keyloc={1: "default", 2: "default"},
                                ops=["ins", "ins_nt", "evict_all_nt", "clear", "get", "close"], max_steps=d + 1, max_ins=3))
        # an insert / remove of the key lands while the disk read of a lookup of it is still in flight
        for pol in ("woe", "woi"):
            edge.append(profile(f"{pol}-read-in-flight", pol, keys=[1, 2], hash={1: 5, 2: 6}, keyloc={1: "default", 2: "default"},
                                ops=["ins", "rem", "get", "evict_all", "get_start"], max_steps=d + 1, max_ins=3))
        edge.append(profile("woe-nolog", "woe", tomblog=False, max_steps=d - 1, ops=["ins", "get", "evict_all", "hold", "gate", "close"]))
        # narrow alphabet, deep: one key (and a colliding one) through queue / flush / index windows
        for pol in ("woe", "woi"):
            edge.append(profile(f"{pol}-1key-deep", pol, keys=[1, 2], hash={1: 5, 2: 5}, keyloc={1: "default", 2: "default"},
                                ops=["ins", "rem", "get", "evict_all", "hold"], max_steps=d + 2, max_ins=2))
    elif pid == "C12":
        locs = {1: "default", 2: "inmem", 3: "ondisk"}
        h = {1: 5, 2: 6, 3: 7}
        ops = ["ins", "get", "fetch", "evict_all", "close", "hold"]
        for pol in ("woe", "woi"):
            edge.append(profile(f"{pol}-advice", pol, keyloc=locs, hash=h, ops=ops, max_steps=d, max_ins=4))
            edge.append(profile(f"{pol}-advice-noflush", pol, keyloc=locs, hash=h, ops=ops, max_steps=d - 1,
                                flush_on_close=False, max_ins=4))
        for pol in ("woe", "woi"):
            # the admission filter rejects key 2: it must never reach the device, and an older copy must not stay readable
            edge.append(profile(f"{pol}-reject", pol, keyloc={1: "default", 2: "default", 3: "ondisk"}, hash=h, reject=[6],
                                ops=["ins", "get", "fetch", "evict_all", "close"], max_steps=d, max_ins=4))
            # disk-only inserts through the storage writer API
            edge.append(profile(f"{pol}-writer", pol, keyloc=locs, hash=h, ops=ops, max_steps=d - 1, max_ins=3, writer=True))
        # an entry loaded from disk is written again on eviction only if its block was marked for imminent reclaim
        for pol in ("woe", "woi"):
            edge.append(profile(f"{pol}-probation", pol, keys=[1, 2], hash={1: 5, 2: 6}, keyloc={1: "default", 2: "default"},
                                ops=["ins", "get", "evict_all", "probation"], max_steps=d + 1, max_ins=2))
        edge.append(profile("woe-lfu-advice", "woe", algo="lfu", memcap=9, keyloc=locs, hash=h, ops=ops, max_steps=d - 1))
        edge.append(profile("woi-sieve-advice", "woi", algo="sieve", memcap=9, keyloc=locs, hash=h, ops=ops, max_steps=d - 1))
    elif pid == "C15":
        h = {1: 5, 2: 6, 3: 7}
        for pol in ("woe", "woi"):
            # deep, narrow: written once, updated while resident, closed, reopened, read
            edge.append(profile(f"{pol}-close-deep", pol, keys=[1, 2], hash={1: 5, 2: 6},
                                keyloc={1: "default", 2: "inmem"}, ops=["ins", "get", "evict_all", "close"],
                                max_steps=d + 1, max_ins=3))
            edge.append(profile(f"{pol}-close", pol, hash=h, ops=["ins", "rem", "get", "evict_all", "close"],
                                max_steps=d, max_ins=3, keyloc={1: "default", 2: "default", 3: "inmem"}))
            edge.append(profile(f"{pol}-close-noflush", pol, hash=h, ops=["ins", "get", "evict_all", "close"],
                                max_steps=d, max_ins=3, flush_on_close=False))
        # the flush buffer holds one entry: evictions still queued when close() is called must not push the
        # resident set out of the buffer ("provided the resident set fits the configured flush buffer")
        edge.append(profile("woe-close-smallbuffer", "woe", keys=[1, 2], hash={1: 5, 2: 6},
                            keyloc={1: "default", 2: "default"}, memcap=2, bufcap=1,
                            ops=["ins_nt", "evict_all_nt", "close", "get"], max_steps=d + 2, max_ins=3))
        edge.append(profile("woe-close-buffer2", "woe", hash=h, memcap=3, bufcap=2,
                            ops=["ins", "ins_nt", "evict_all_nt", "close", "get"], max_steps=d + 1, max_ins=4))
        # an entry over the per-entry limit of the disk tier (2 blocks here) is refused by the flusher; that must not
        # affect later writes.  The write-queue threshold is 1.5 such entries and at most one entry is handed over per
        # operation (write-on-insertion, or a memory tier of one entry), so nothing is shed by the threshold itself;
        # a size that is not given back when an entry is refused stays over it for good after two refusals
        edge.append(profile("woi-close-oversize", "woi", keys=[1, 2], hash={1: 5, 2: 6}, keyloc={1: "default", 2: "default"},
                            ops=["ins", "ins_big", "close", "get"], max_steps=d + 1, max_ins=4, queue_threshold=196608))
        edge.append(profile("woe-close-oversize", "woe", keys=[1, 2], hash={1: 5, 2: 6}, keyloc={1: "default", 2: "default"},
                            memcap=1, ops=["ins", "ins_big", "close", "get"], max_steps=d + 1, max_ins=4,
                            queue_threshold=196608))
        # close() while the device still holds writes of the batch in flight: it must not return
        for pol in ("woi", "woe"):
            edge.append(profile(f"{pol}-close-gated", pol, keys=[1, 2], hash={1: 5, 2: 6}, keyloc={1: "default", 2: "default"},
                                ops=["ins", "evict_all", "gate", "close", "get"], max_steps=d, max_ins=2))
        edge.append(profile("woe-lru-close", "woe", algo="lru", memcap=9, hash=h,
                            ops=["ins", "get", "evict_all", "close"], max_steps=d))
    elif pid == "C17":
        ops = ["ins", "rem", "get", "sload", "fetch", "evict_all", "hold", "close"]
        for pol in ("woe", "woi"):
            edge.append(profile(f"{pol}-full-collision", pol, hash={1: 5, 2: 5, 3: 5}, ops=ops, max_steps=d))
        edge.append(profile("woe-lru-collision", "woe", algo="lru", memcap=9, hash={1: 5, 2: 5, 3: 6}, ops=ops,
                            max_steps=d - 1))
    else:
        raise core.ToolError(f"no hybrid profiles for {pid}")
    rand = [dict(p, name=p["name"] + "-rand") for p in edge]
    return edge, rand


def write_model(d, p, emit):
    core.copy_specs(d, {"Hybrid", "MC_Hybrid"})
    root = "HYrun"
    with open(os.path.join(d, root + ".tla"), "w") as f:
        f.write(f"---- MODULE {root} ----\nEXTENDS MC_Hybrid\n")
        f.write(f"c_Hash == {core.tla_value({int(k): v for k, v in p['hash'].items()})}\n")
        f.write(f"c_KeyLoc == {core.tla_value({int(k): v for k, v in p['keyloc'].items()})}\n====\n")
    lines = ["SPECIFICATION MCSpec", "CONSTANTS", f"  Keys = {core.tla_value(set(p['keys']))}", "  Hash <- c_Hash",
             "  KeyLoc <- c_KeyLoc", f"  MemCap = {p['memcap']}", f"  Policy = \"{p['policy']}\"",
             f"  FlushOnClose = {core.tla_value(p['flush_on_close'])}", f"  TombLog = {core.tla_value(p['tomblog'])}",
             f"  BufCap = {p['bufcap']}", f"  Reject = {core.tla_value(set(p['reject']))}", f"  Writer = {core.tla_value(bool(p['writer']))}", f"  OpSet = {core.tla_value(set(p['ops']))}", f"  MaxSteps = {p['max_steps']}",
             f"  MaxIns = {p['max_ins']}", f"  Emit = {'TRUE' if emit else 'FALSE'}", "CHECK_DEADLOCK FALSE"]
    lines += ["VIEW MCView"] if emit else ["INVARIANT Inv"]
    name = "MC_emit.cfg" if emit else "MC_inv.cfg"
    with open(os.path.join(d, name), "w") as f:
        f.write("\n".join(lines) + "\n")
    return root, name


def harness_cfgs(d, p):
    cfg = mem.harness_cfg(d, dict(p))
    hpath = os.path.join(d, "hcfg.json")
    with open(hpath, "w") as f:
        json.dump({"policy": p["policy"], "flush_on_close": p["flush_on_close"], "tomblog": p["tomblog"],
                   "memcap": p["memcap"], "keyloc": {str(k): v for k, v in p["keyloc"].items()},
                   "buffer_pages": p["bufcap"], "reject": list(p["reject"]), "ondisk_via_writer": bool(p["writer"]),
                   **({"queue_threshold": p["queue_threshold"]} if p.get("queue_threshold") else {})}, f)
    return cfg, hpath


def replay_scripts(d, p, scripts, tag, sample, threads=8):
    res = os.path.join(d, f"replay_{tag}.json")
    trace = os.path.join(d, f"trace_{tag}.ndjson")
    cfg, hcfg = harness_cfgs(d, p)
    core.run_harness(["hybrid-replay", "--cfg", cfg, "--hcfg", hcfg, "--scripts", scripts, "--out", res,
                      "--trace", trace, "--trace-sample", str(sample), "--threads", str(threads),
                      "--prop-fields", "res,enq,wr"], timeout=3000)
    with open(res) as f:
        return json.load(f), trace


def gen_random(p, rng, num, length):
    scripts = []
    for _ in range(num):
        ops = [{"a": "init"}]
        hold = gate = False
        active = True
        pending_read = False
        nins = 0
        for _ in range(length):
            if not active:
                if p["flush_on_close"] and "close" in p["ops"]:
                    ops.append({"a": "reopen"})
                    active = True
                    continue
                break
            a = rng.choice(p["ops"] + ["ins", "get", "get"])
            k = rng.choice(p["keys"])
            if pending_read:
                # the device holds reads: only operations that need no disk read, or the end of the window
                if a not in ("ins", "rem", "evict_all", "get_start"):
                    continue
                if a == "get_start":
                    ops.append({"a": "get_finish"})
                    pending_read = False
                    continue
            elif a == "get_start":
                ops.append({"a": "get_start", "k": k})
                pending_read = True
                continue
            if a == "ins_big" and a in p["ops"]:
                if p["keyloc"][k] == "default":
                    nins += 1
                    ops.append({"a": a, "k": k, "loc": p["keyloc"][k]})
            elif a == "ins_h" and a in p["ops"]:
                if p["keyloc"][k] != "ondisk" or rng.random() < 0.3:
                    ops.append({"a": "drop_h"})
                else:
                    nins += 1
                    ops.append({"a": a, "k": k, "loc": p["keyloc"][k]})
            elif a in ("ins", "ins_nt") and a in p["ops"]:
                nins += 1
                ops.append({"a": a, "k": k, "loc": p["keyloc"][k]})
            elif a in ("rem", "get", "fetch", "sload") and a in p["ops"]:
                ops.append({"a": a, "k": k})
            elif a in ("evict_all", "evict_all_nt"):
                ops.append({"a": a})
            elif a == "clear" and not hold and not gate:
                ops.append({"a": a})
            elif a == "probation":
                ops.append({"a": a})
            elif a == "hold":
                hold = not hold
                ops.append({"a": "hold" if hold else "unhold"})
            elif a == "gate":
                if gate and hold and rng.random() < 0.5:
                    ops.append({"a": "gate_step"})
                else:
                    gate = not gate
                    ops.append({"a": "gate_on" if gate else "gate_off"})
            elif a == "close" and rng.random() < 0.3:
                if hold:
                    ops.append({"a": "unhold"})
                    hold = False
                if "ins_h" in p["ops"]:
                    ops.append({"a": "drop_h"})
                if gate:
                    ops.append({"a": "gate_off"})
                    gate = False
                # without the tombstone log a restart may bring deleted entries back (documented)
                if not p["tomblog"] and any(o["a"] == "rem" for o in ops):
                    continue
                ops.append({"a": "close"})
                active = False
        if pending_read:
            ops.append({"a": "get_finish"})
        if hold:
            ops.append({"a": "unhold"})
        if gate:
            ops.append({"a": "gate_off"})
        if "ins_h" in p["ops"]:
            ops.append({"a": "drop_h"})
        if active:
            for k in p["keys"]:
                ops.append({"a": "get", "k": k})
        scripts.append({"ops": ops, "obs": None})
    return scripts


def trace_check(d, p, scripts, invariant, tag, max_rounds=6):
    if not scripts:
        return []
    core.copy_specs(d, {"Hybrid", "Trace_Hybrid"})
    root = "HYtrace"
    with open(os.path.join(d, root + ".tla"), "w") as f:
        f.write(f"---- MODULE {root} ----\nEXTENDS Trace_Hybrid\n")
        f.write(f"c_Hash == {core.tla_value({int(k): v for k, v in p['hash'].items()})}\n")
        f.write(f"c_KeyLoc == {core.tla_value({int(k): v for k, v in p['keyloc'].items()})}\n====\n")
    cfgname = f"TR_{invariant}_{tag}.cfg"
    with open(os.path.join(d, cfgname), "w") as f:
        f.write("\n".join([
            "SPECIFICATION TraceSpec", "CONSTANTS", f"  Keys = {core.tla_value(set(p['keys']))}", "  Hash <- c_Hash",
            "  KeyLoc <- c_KeyLoc", f"  MemCap = {p['memcap']}", f"  Policy = \"{p['policy']}\"",
            f"  FlushOnClose = {core.tla_value(p['flush_on_close'])}", f"  TombLog = {core.tla_value(p['tomblog'])}",
            f"  BufCap = {p['bufcap']}", f"  Reject = {core.tla_value(set(p['reject']))}", f"  Writer = {core.tla_value(bool(p['writer']))}", f"INVARIANT {invariant}", "POSTCONDITION Consumed", "CHECK_DEADLOCK FALSE"]) + "\n")
    out = []
    pending = list(scripts)
    rounds = 0
    while pending and rounds < max_rounds:
        rounds += 1
        tpath = os.path.join(d, f"tr_{invariant}_{tag}_{rounds}.ndjson")
        with open(tpath, "w") as f:
            for s in pending:
                f.writelines(s)
        r = core.run_tlc(d, root, cfgname, workers=1, trace=tpath, dfs_queue=True, timeout=900)
        if r.get("error"):
            raise core.ToolError(f"TLC error in Trace_Hybrid: {r['error'][:2000]}")
        if not r["violated"]:
            if r.get("consumed") != r.get("trace_len"):
                raise core.ToolError(f"Trace_Hybrid did not consume the whole trace:\n{r['out'][-2000:]}")
            break
        ls = re.findall(r"/\\ l = (\d+)", r["out"])
        bads = [core.last_var(r["out"], "bad")]
        line_no = int(ls[-1]) - 1
        acc = 0
        for i, s in enumerate(pending):
            if line_no <= acc + len(s):
                out.append({"script": [json.loads(x) for x in s], "line_in_script": line_no - acc,
                            "bad": bads[-1] if bads else r["violated"][0]})
                pending = pending[i + 1:]
                break
            acc += len(s)
        else:
            raise core.ToolError("could not locate offending line")
    return out


def judge(pid, d, p, ok, cand, kind):
    violations = []
    for v in trace_check(d, p, cand + ok, f"NoViolation_{pid}", kind):
        line = v["script"][v["line_in_script"] - 1]
        violations.append({"kind": "predicate", "bad": v["bad"], "profile": p["name"],
                           "ops": [x["op"] for x in v["script"][:v["line_in_script"]]],
                           "observed": line["obs"], "op": line["op"]})
    if not violations:
        # a lookup that fails or never completes is not something any of these properties speaks about: unless
        # the run also shows a violation it is reported as a tool error, never as a violation
        tool = trace_check(d, p, cand + ok, "NoToolError", kind + "_tool", max_rounds=1)
        if tool:
            raise core.ToolError(f"a lookup failed or did not complete in the harness: {json.dumps(tool[0])[:1500]}")
    drift = trace_check(d, p, ok, "NoDrift", kind + "_drift", max_rounds=1)
    return violations, len(drift)


def run_profile(pid, tier, p, kind, base, seed):
    d = os.path.join(base, f"{kind}-{p['name']}")
    os.makedirs(d, exist_ok=True)
    t0 = time.time()
    out = {"profile": p["name"], "algo": p["algo"], "policy": p["policy"], "kind": kind}
    if kind == "edge":
        root, cfg = write_model(d, p, emit=False)
        mc = core.run_tlc(d, root, cfg, workers=4, timeout=1500)
        core.tlc_must_pass(mc, f"MC_Hybrid[{p['name']}]")
        out["states"], out["transitions"] = mc["distinct"], mc["generated"]
        root, cfg = write_model(d, p, emit=True)
        scripts = os.path.join(d, "edges.txt")
        em = core.run_tlc(d, root, cfg, workers=1, timeout=1500, out_file=scripts)
        core.tlc_must_pass(em, f"edge emission[{p['name']}]")
        rep, trace = replay_scripts(d, p, scripts, kind, sample=40)
        os.remove(scripts)
    else:
        rng = random.Random(seed * 104729 + sum(map(ord, p["name"])))
        num, length = (400, 30) if tier == "thorough" else (60, 20)
        scripts = os.path.join(d, "rand.txt")
        with open(scripts, "w") as f:
            for s in gen_random(p, rng, num, length):
                f.write(json.dumps(s) + "\n")
        rep, trace = replay_scripts(d, p, scripts, kind, sample=num, threads=6)
    out.update(scripts=rep["scripts"], matched=rep["matched"], mismatched=rep["mismatched"],
               roots=rep["root_mismatches"], panics=rep["panics"], nontrivial=rep["nontrivial"],
               by_field=rep["by_field"])
    ok, cand = mem.split_trace(trace)
    # the history of every open known finding of this property and profile is always executed and judged, so
    # that the finding is reported (as KNOWN-FINDING) on every run for as long as it is open
    kh = [k for k in core.load_known() if k.get("status") == "open" and k.get("property") == pid
          and k.get("profile") == p["name"]] if kind == "edge" else []
    if kh:
        kscripts = os.path.join(d, "known.txt")
        with open(kscripts, "w") as f:
            for k in kh:
                f.write(json.dumps({"ops": k["history"], "obs": None}) + "\n")
        _, ktrace = replay_scripts(d, p, kscripts, "known", sample=len(kh), threads=1)
        ok2, cand2 = mem.split_trace(ktrace)
        ok, cand = ok + ok2, cand + cand2
    if kind == "rand":
        out["nontrivial"] = sum(1 for s in ok if any(json.loads(x)["obs"]["enq"] for x in s))
    violations, drift = judge(pid, d, p, ok, cand, kind)
    out["tlc_trace_scripts"] = len(ok) + len(cand)
    out["drift"] = drift
    out["wall"] = round(time.time() - t0, 1)
    with open(trace) as f:
        head = [json.loads(x) for _, x in zip(range(8), f)]
    sample = {"profile": p["name"], "kind": kind, "trace_head": [{"op": e["op"], "obs": e["obs"]} for e in head]}
    return out, violations, sample


def check(pid, tier):
    from . import memcheck
    t0 = time.time()
    core.build_harness()
    base = core.work_dir(f"{pid}-{tier}")
    edge, rand = profiles_for(pid, tier)
    jobs = [(p, "edge") for p in edge] + [(p, "rand") for p in rand]
    results, violations, samples = [], [], []
    with cf.ThreadPoolExecutor(max_workers=3) as ex:
        futs = [ex.submit(run_profile, pid, tier, p, kind, base, core.seed()) for p, kind in jobs]
        deferred = []
        for f in futs:
            try:
                out, vs, sample = f.result()
            except core.ToolError as e:
                # a lookup that never completes is reported as a tool error only if no profile shows a violation
                if "did not complete" not in str(e):
                    raise
                deferred.append(e)
                continue
            results.append(out)
            violations += vs
            if len(samples) < 3:
                samples.append(sample)
            core.log(json.dumps(out))
        if deferred and not violations:
            raise deferred[0]
    if pid == "C12":
        # block level: a disk hit comes back Old exactly if its block is marked for imminent reclaim, and a block
        # that was reclaimed and refilled is not (Trace_DiskImage tag C12.age_of_disk_hit_differs_from_block_probation)
        from . import diskcheck
        rng = random.Random(core.seed() * 13 + 12)
        ws = []
        for _ in range(8 if tier == "thorough" else 3):
            ops = [{"a": "ins", "k": rng.choice(diskcheck.KEYS)} for _ in range(rng.randint(6, 14))]
            ops += [{"a": "wait"}, {"a": "q"}, {"a": "probation"}, {"a": "q"}]
            for i in range(60):
                ops.append({"a": "ins", "k": rng.choice(diskcheck.KEYS)})
                if i % 4 == 3:
                    ops += [{"a": "wait"}, {"a": "q"}]
            ws.append({"ops": ops})
        out, vs, sample = diskcheck.run_profile("C12", os.path.join(base, "probation-reclaim"), "probation-reclaim", 8, 4, 0, False,
                                                ws, "NoViolation_C12", "", {"flushers": 1, "reclaimers": 1, "clean_threshold": 1})
        out["engine"] = "disk"
        for v in vs:
            v["engine"] = "disk"
        results.append(out)
        violations += vs
        core.log(json.dumps(out))
    return memcheck.finish(pid, tier, t0, results, violations, samples, rule=(
        "one driver script per edge of the reachable graph of each bounded MC_Hybrid model (insert with placement "
        "advice, remove, get, get_or_fetch, evict_all, flush hold/release, device-write gate, close, reopen), executed "
        "on a real HybridCache (FsDevice in a scratch directory, gated io engine, hand-turned runtime) and compared "
        "with the specification's observation; plus seeded random driver scripts; every recorded trace is validated "
        "by TLC against Trace_Hybrid; non-trivial = the step offered entries to the disk tier, wrote to the device or "
        "returned a value"), assumptions=[
        "one driver operation is atomic with respect to the flusher (single-threaded schedules); the windows inside the "
        "write path are opened with the flush switch and the device gate",
        "memory tier modelled as FIFO with unit weights; the other algorithms are driven through evict_all",
        "no block reclaim in these models (device larger than the workload)",
        "restart with deletes is checked with the tombstone log enabled (the engine documents that updatable caches "
        "need it)"], engine="hybrid")


def replay(pid, path):
    core.build_harness()
    with open(path) as f:
        v = json.load(f)["violation"]
    if v.get("engine") == "disk":
        from . import diskcheck
        return diskcheck.replay(pid, path)
    allp = [x for t in ("quick", "thorough") for grp in profiles_for(pid, t) for x in grp]
    p = next((x for x in allp if x["name"] == v["profile"]), None)
    if p is None:
        raise core.ToolError(f"profile {v['profile']} of the replay file is unknown")
    d = core.work_dir(f"{pid}-replay")
    scripts = os.path.join(d, "script.txt")
    with open(scripts, "w") as f:
        f.write(json.dumps({"ops": v["ops"], "obs": None}) + "\n")
    rep, trace = replay_scripts(d, p, scripts, "single", 1, threads=1)
    ok, cand = mem.split_trace(trace)
    vs = trace_check(d, p, ok + cand, f"NoViolation_{pid}", "replay")
    if vs:
        line = vs[0]["script"][vs[0]["line_in_script"] - 1]
        out = core.write_replay(pid, {"property": pid, "engine": "hybrid", "violation": {
            "kind": "predicate", "bad": vs[0]["bad"], "profile": p["name"],
            "ops": [x["op"] for x in vs[0]["script"][:vs[0]["line_in_script"]]], "observed": line["obs"],
            "op": line["op"]}})
        print(f"VIOLATION property={pid} replay={out}")
        return 1
    print("replay: the recorded script no longer violates the property")
    return 0


def check_c17(tier):
    """C17 = memory part (MemCache with colliding hashes) + disk part (Hybrid with colliding hashes); one
    evidence file covering both."""
    from . import memcheck
    t0 = time.time()
    core.build_harness()
    base = core.work_dir(f"C17-{tier}")
    results, violations, samples = [], [], []
    medge, msim = memcheck.profiles_for("C17", tier)
    hedge, hrand = profiles_for("C17", tier)
    from . import inflightcheck
    iedge, irand = inflightcheck.profiles_for("C17", tier)
    with cf.ThreadPoolExecutor(max_workers=4) as ex:
        futs = [(ex.submit(memcheck.run_profile, "C17", tier, p, kind, base, core.seed(), 3), "mem")
                for p, kind in [(p, "edge") for p in medge] + [(p, "rand") for p in msim]]
        futs += [(ex.submit(run_profile, "C17", tier, p, kind, base, core.seed()), "hybrid")
                 for p, kind in [(p, "edge") for p in hedge] + [(p, "rand") for p in hrand]]
        futs += [(ex.submit(inflightcheck.run_profile, "C17", tier, p, kind, base, core.seed()), "inflight")
                 for p, kind in [(p, "edge") for p in iedge] + [(p, "rand") for p in irand]]
        deferred = []
        for f, eng in futs:
            try:
                out, vs, sample = f.result()
            except core.ToolError as e:
                if "did not complete" not in str(e):
                    raise
                deferred.append(e)
                continue
            out["engine"] = eng
            for v in vs:
                v["engine"] = eng
            results.append(out)
            violations += vs
            if sample and len(samples) < 4:
                samples.append(sample)
            core.log(json.dumps(out))
        if deferred and not violations:
            raise deferred[0]
    return memcheck.finish("C17", tier, t0, results, violations, samples, rule=(
        "memory part: edges of bounded MC_MemCache models with non-injective Hash (full collisions and same-shard "
        "collisions) replayed on a Cache built with a colliding user hasher, plus random runs validated by TLC "
        "(Trace_MemCache, Trace_MemDiag tag C17.foreign_value); disk part: edges of bounded MC_Hybrid models whose "
        "keys share one 64-bit hash (the disk index is by hash alone) replayed on a real HybridCache, plus random "
        "driver scripts, validated by TLC (Trace_Hybrid tag C17.foreign_value: a lookup answered with another "
        "key's value); non-trivial as in C05 / C01"), assumptions=[
        "exhaustive only for the small constants of each profile",
        "disk part without block reclaim"], engine="mixed")
