"""C08 - decided with spec/Codec.tla: TLC model check of the framing rule (MC_Codec, small page size), then
Code::encode/decode of every built-in type into destinations of n-1, n, n+1 bytes and batches of entries of
chosen sizes through the real flusher buffer (all compression modes); TLC validates the recorded outcomes
against Trace_Codec with the real constants (Page 4096, Header 36)."""
import json
import os
import random
import time

from . import core, mem, memcheck

PAGE = 4096
OVERHEAD = 36 + 28          # entry header + encoded HVal without padding (20) + key (8)


def mc(d, tier):
    core.copy_specs(d, {"Codec", "MC_Codec"})
    res = []
    cfgs = [dict(page=4, header=2, rooms={8, 12}, maxe={4, 8}, maxlen=8, n=3)]
    if tier == "thorough":
        cfgs.append(dict(page=4, header=3, rooms={8, 12, 16}, maxe={4, 8, 12}, maxlen=12, n=4))
    for i, c in enumerate(cfgs):
        for inv in ("Inv", "W_ExactFit", "W_OneOver", "W_LimitOnly"):
            name = f"MC_{i}_{inv}.cfg"
            with open(os.path.join(d, name), "w") as f:
                f.write("\n".join(["SPECIFICATION Spec", "CONSTANTS", f"  Page = {c['page']}", f"  Header = {c['header']}",
                                   f"  Rooms = {core.tla_value(c['rooms'])}", f"  MaxEntries = {core.tla_value(c['maxe'])}",
                                   f"  MaxLen = {c['maxlen']}", f"  MaxN = {c['n']}", f"INVARIANT {inv}",
                                   "CHECK_DEADLOCK FALSE"]) + "\n")
            r = core.run_tlc(d, "MC_Codec", name, workers=4, timeout=900)
            if r.get("error"):
                raise core.ToolError(f"TLC error in MC_Codec: {r['error'][:1500]}")
            if inv == "Inv":
                core.tlc_must_pass(r, "MC_Codec")
                res.append({"profile": f"MC_Codec page={c['page']} header={c['header']}", "kind": "edge", "algo": "-",
                            "states": r["distinct"], "transitions": r["generated"], "scripts": 0, "matched": 0,
                            "mismatched": 0, "roots": 0, "panics": 0, "nontrivial": 0, "by_field": {}})
            elif not r["violated"]:
                raise core.ToolError(f"vacuity: the boundary case {inv} is not reachable in MC_Codec")
    return res


def batches(rng, tier):
    out = []

    def hc(buffer_pages, block_pages, compression="", incompressible=False):
        return {"policy": "woi", "flush_on_close": True, "tomblog": False, "memcap": 16, "keyloc": {}, "blocks": 8,
                "block_pages": block_pages, "buffer_pages": buffer_pages, "compression": compression,
                "incompressible": incompressible}
    room = 4 * PAGE
    # exact fit of the room / one byte over / a sequence that fills it exactly / page boundaries
    out.append({"hcfg": hc(4, 16), "pads": [room - OVERHEAD]})
    out.append({"hcfg": hc(4, 16), "pads": [room - OVERHEAD + 1]})
    out.append({"hcfg": hc(4, 16), "pads": [PAGE - OVERHEAD, 0, PAGE - OVERHEAD + 1, 5]})
    out.append({"hcfg": hc(4, 16), "pads": [0, PAGE - OVERHEAD - 1, PAGE - OVERHEAD, PAGE - OVERHEAD + 1, 0]})
    out.append({"hcfg": hc(4, 16), "pads": [2 * PAGE - OVERHEAD, 2 * PAGE - OVERHEAD + 1, 0]})
    # per-entry limit (block - blob index) smaller than the room
    out.append({"hcfg": hc(32, 4), "pads": [3 * PAGE - OVERHEAD, 3 * PAGE - OVERHEAD + 1, 0, 4 * PAGE]})
    out.append({"hcfg": hc(32, 2), "pads": [PAGE - OVERHEAD, PAGE - OVERHEAD + 1, 0]})
    n = 30 if tier == "thorough" else 6
    for _ in range(n):
        bp = rng.choice([2, 3, 4, 8])
        pads = [rng.choice([0, 1, 100, PAGE - OVERHEAD - 1, PAGE - OVERHEAD, PAGE - OVERHEAD + 1, 2 * PAGE - OVERHEAD,
                            rng.randint(0, 3 * PAGE)]) for _ in range(rng.randint(1, 7))]
        out.append({"hcfg": hc(bp, rng.choice([4, 8, 16])), "pads": pads})
    for comp in ("zstd", "lz4"):
        for inc in (False, True):
            out.append({"hcfg": hc(16, 16, comp, inc), "pads": [0, 1, 100, 4000, 4096, 9000]})
            if tier == "thorough":
                out.append({"hcfg": hc(16, 16, comp, inc), "pads": [rng.randint(0, 12000) for _ in range(6)]})
    return out


def check(tier):
    t0 = time.time()
    core.build_harness()
    d = core.work_dir(f"C08-{tier}")
    results = mc(d, tier)
    rng = random.Random(core.seed() * 13 + 8)
    bs = batches(rng, tier)
    bpath = os.path.join(d, "batches.txt")
    with open(bpath, "w") as f:
        for b in bs:
            f.write(json.dumps(b) + "\n")
    cfg = mem.harness_cfg(d, dict(algo="fifo", shards=1, hash={1: 1}, cfg=dict(mem.DEFAULT_CFG)))
    trace = os.path.join(d, "trace.ndjson")
    info = json.loads(core.run_harness(["codec-run", "--cfg", cfg, "--trace", trace, "--seed", str(core.seed()),
                                        "--random-per-type", "40" if tier == "thorough" else "8",
                                        "--batches", bpath]).strip().splitlines()[-1])
    core.copy_specs(d, {"Codec", "Trace_Codec"})
    with open(os.path.join(d, "TR.cfg"), "w") as f:
        f.write("\n".join(["SPECIFICATION TraceSpec", "CONSTANTS", "  Page = 4096", "  Header = 36",
                           "INVARIANT NoViolation_C08", "POSTCONDITION Consumed", "CHECK_DEADLOCK FALSE"]) + "\n")
    violations = []
    with open(trace) as f:
        lines = f.readlines()
    todo = lines
    base = 0
    for _ in range(5):
        tpath = os.path.join(d, "tr.ndjson")
        with open(tpath, "w") as f:
            f.writelines(todo)
        r = core.run_tlc(d, "Trace_Codec", "TR.cfg", workers=1, trace=tpath, dfs_queue=True, timeout=900)
        if r.get("error"):
            raise core.ToolError(f"TLC error in Trace_Codec: {r['error'][:2000]}")
        if not r["violated"]:
            if r.get("consumed") != r.get("trace_len"):
                raise core.ToolError(f"Trace_Codec did not consume the whole trace:\n{r['out'][-1500:]}")
            break
        line_no = int(core.last_var(r["out"], "l")) - 1
        ev = json.loads(todo[line_no - 1])
        violations.append({"kind": "predicate", "bad": core.last_var(r["out"], "bad"), "profile": "codec",
                           "ops": [ev if ev["a"] == "enc" else bs[ev["script"] - 1]], "observed": ev,
                           "op": {"name": ev["a"]}})
        todo = todo[line_no:]
    enc = [json.loads(x) for x in lines if '"a":"enc"' in x]
    results.append({"profile": "Code::encode/decode of all built-in types, destinations n-1/n/n+1", "kind": "rand", "algo": "-",
                    "scripts": len(enc), "matched": 0, "mismatched": 0, "roots": 0, "panics": 0,
                    "nontrivial": sum(1 for e in enc if e["d"] != e["n"]), "by_field": {}, "tlc_trace_scripts": len(enc),
                    "types": sorted({e["ty"] for e in enc})})
    results.append({"profile": "batches through the real flusher buffer (incl. zstd / lz4)", "kind": "rand", "algo": "-",
                    "scripts": info["batches"], "matched": 0, "mismatched": 0, "roots": 0, "panics": 0,
                    "nontrivial": info["batches"], "by_field": {}, "tlc_trace_scripts": info["batches"]})
    samples = [json.loads(lines[0]), json.loads(lines[-1])]
    return memcheck.finish("C08", tier, t0, results, violations, samples, rule=(
        "TLC model check of MC_Codec (all sequences of pushes of all payload lengths into small buffers: accepted "
        "entries inside the buffer, aligned, disjoint, within the per-entry limit; a rejected entry leaves no trace and "
        "really does not fit; the boundary cases exact fit / one byte over / limit-only are reachable); then every "
        "built-in Code type at boundary and random values encoded into destinations of 0, n/2, n-1, n, n+1, n+7 bytes "
        "(success iff it fits, exactly n bytes written, size-limit error otherwise, decode(encode(x)) bit-identical), "
        "and batches of entries whose sizes sit on the page / buffer / per-entry-limit boundaries pushed through the "
        "real flusher buffer under None / Zstd / Lz4 with compressible and incompressible payloads; the recorded "
        "outcomes are validated by TLC against Trace_Codec (real constants); non-trivial = destination size differs "
        "from the encoded size, or a batch"), assumptions=[
        "bit-exactness is established by comparing bytes / values in the harness on each generated case; TLA+ decides "
        "accept / reject / recorded lengths (it cannot say anything about zstd or lz4 themselves)",
        "the serde (bincode) path is not exercised: the feature is off in this build"], engine="codec")
