"""C18 under real threads - decided with spec/PinRace.tla: TLC model check of the handle protocol (lock-free
decrement, locked release / lookup / remove, eviction of unpinned records), every schedule of the bounded
instance emitted by TLC as a script, forced on the real cache through a blocker that holds the shard lock
(harness pin-race), and the recorded runs validated by TLC against Trace_PinRace."""
import json
import os

from . import core

CONFIGS = [dict(threads=[1, 2, 3], owners=[1]), dict(threads=[1, 2, 3], owners=[1, 2])]
THOROUGH = [dict(threads=[1, 2, 3, 4], owners=[1]), dict(threads=[1, 2, 3, 4], owners=[1, 2])]


def run(tier, base):
    d = os.path.join(base, "pinrace")
    os.makedirs(d, exist_ok=True)
    core.copy_specs(d, {"PinRace", "MC_PinRace", "Trace_PinRace"})
    results, violations, samples = [], [], []
    cfgs = CONFIGS + (THOROUGH if tier == "thorough" else [])
    for i, c in enumerate(cfgs):
        scripts = []
        for emit in (False, True):
            name = f"PR_{i}_{int(emit)}.cfg"
            with open(os.path.join(d, name), "w") as f:
                f.write("\n".join(["SPECIFICATION MCSpec", "CONSTANTS", f"  Threads = {core.tla_value(set(c['threads']))}",
                                   f"  Owners = {core.tla_value(set(c['owners']))}", "  Recheck = TRUE",
                                   f"  Emit = {'TRUE' if emit else 'FALSE'}",
                                   "VIEW MCView" if emit else "INVARIANT Inv", "CHECK_DEADLOCK FALSE"]) + "\n")
            r = core.run_tlc(d, "MC_PinRace", name, workers=2, timeout=900)
            if not emit:
                core.tlc_must_pass(r, f"MC_PinRace[{c}]")
                states, gen = r["distinct"], r["generated"]
            else:
                if r.get("error") or r["violated"]:
                    raise core.ToolError(f"MC_PinRace emit run failed: {r['out'][-1500:]}")
                seen = set()
                for line in r["out"].splitlines():
                    line = line.strip()
                    if line.startswith('"{') or line.startswith("{"):
                        try:
                            s = json.loads(json.loads(line)) if line.startswith('"') else json.loads(line)
                        except Exception:
                            continue
                        key = json.dumps(s, sort_keys=True)
                        if key not in seen:
                            seen.add(key)
                            scripts.append(s)
        if not scripts:
            raise core.ToolError("MC_PinRace emitted no schedule")
        spath = os.path.join(d, f"scripts_{i}.txt")
        with open(spath, "w") as f:
            for s in scripts:
                f.write(json.dumps(s) + "\n")
        trace = os.path.join(d, f"trace_{i}.ndjson")
        repeat = 2 if tier == "thorough" else 1
        core.run_harness(["pin-race", "--scripts", spath, "--trace", trace, "--repeat", str(repeat), "--settle-ms", "20"],
                         timeout=3000)
        runs = {}
        with open(trace) as f:
            for line in f:
                runs.setdefault(json.loads(line)["script"], []).append(line)
        pending = [runs[k] for k in sorted(runs)]
        n_runs = len(pending)
        drift = 0
        for inv in ("NoViolation_C18", "NoDrift"):
            cfgname = f"TR_{i}_{inv}.cfg"
            with open(os.path.join(d, cfgname), "w") as f:
                f.write("\n".join(["SPECIFICATION TraceSpec", "CONSTANTS", f"  Threads = {core.tla_value(set(c['threads']))}",
                                   "  Recheck = TRUE", f"INVARIANT {inv}", "INVARIANT TraceInv", "POSTCONDITION Consumed",
                                   "CHECK_DEADLOCK FALSE"]) + "\n")
            todo = list(pending)
            rounds = 0
            while todo and rounds < (6 if inv != "NoDrift" else 1):
                rounds += 1
                tpath = os.path.join(d, f"tr_{i}_{inv}_{rounds}.ndjson")
                with open(tpath, "w") as f:
                    for s in todo:
                        f.writelines(s)
                r = core.run_tlc(d, "Trace_PinRace", cfgname, workers=1, trace=tpath, dfs_queue=True, timeout=900)
                if r.get("error"):
                    raise core.ToolError(f"TLC error in Trace_PinRace: {r['error'][:2000]}")
                if not r["violated"]:
                    if r.get("consumed") != r.get("trace_len"):
                        if inv == "NoDrift":
                            drift += 1      # a run no lock order explains
                            break
                        raise core.ToolError(f"Trace_PinRace did not consume the whole trace:\n{r['out'][-2000:]}")
                    break
                if "TraceInv" in r["out"] and "Invariant TraceInv is violated" in r["out"]:
                    raise core.ToolError(f"Trace_PinRace: model invariant violated on a recorded run:\n{r['out'][-1500:]}")
                line_no = int(core.last_var(r["out"], "l")) - 1
                acc = 0
                for j, s in enumerate(todo):
                    if line_no <= acc + len(s):
                        evs = [json.loads(x) for x in s]
                        if inv == "NoDrift":
                            drift += 1
                        else:
                            violations.append({"kind": "predicate", "bad": core.last_var(r["out"], "bad"),
                                               "profile": f"pinrace-{i}", "engine": "pinrace",
                                               "ops": [{"owners": evs[0]["owners"]}] + [e for e in evs if e["e"] == "start"],
                                               "observed": evs[line_no - acc - 1], "op": {"name": "pressure"}})
                        todo = todo[j + 1:]
                        break
                    acc += len(s)
        results.append({"profile": f"pinrace threads={len(c['threads'])} owners={len(c['owners'])}", "kind": "edge",
                        "algo": "lru", "states": states, "transitions": gen, "scripts": n_runs, "matched": n_runs - drift,
                        "mismatched": drift, "roots": 0, "panics": 0, "nontrivial": n_runs, "by_field": {},
                        "tlc_trace_scripts": n_runs, "drift": drift, "schedules": len(scripts), "engine": "pinrace"})
        if pending and len(samples) < 1:
            samples.append({"profile": f"pinrace-{i}", "trace_head": [json.loads(x) for x in pending[0][:6]]})
    return results, violations, samples


def replay(v):
    """re-run one recorded schedule (several times: the lock order is the lock's choice)"""
    core.build_harness()
    d = core.work_dir("C18-pinrace-replay")
    core.copy_specs(d, {"PinRace", "Trace_PinRace"})
    owners = v["ops"][0]["owners"]
    starts = [{"t": e["t"], "op": e["op"], "from": e.get("from", 0)} for e in v["ops"][1:]]
    threads = sorted({1, 2, 3} | set(owners) | {s["t"] for s in starts} | {s["from"] for s in starts if s["from"]})
    spath = os.path.join(d, "s.txt")
    with open(spath, "w") as f:
        f.write(json.dumps({"owners": owners, "starts": starts}) + "\n")
    trace = os.path.join(d, "t.ndjson")
    core.run_harness(["pin-race", "--scripts", spath, "--trace", trace, "--repeat", "5", "--settle-ms", "15"], timeout=600)
    with open(os.path.join(d, "TR.cfg"), "w") as f:
        f.write("\n".join(["SPECIFICATION TraceSpec", "CONSTANTS", f"  Threads = {core.tla_value(set(threads))}",
                           "  Recheck = TRUE", "INVARIANT NoViolation_C18", "POSTCONDITION Consumed",
                           "CHECK_DEADLOCK FALSE"]) + "\n")
    r = core.run_tlc(d, "Trace_PinRace", "TR.cfg", workers=1, trace=trace, dfs_queue=True, timeout=600)
    if r.get("error"):
        raise core.ToolError(f"TLC error in Trace_PinRace: {r['error'][:2000]}")
    if r["violated"]:
        return {"kind": "predicate", "bad": core.last_var(r["out"], "bad"), "profile": v["profile"], "engine": "pinrace",
                "ops": v["ops"], "observed": {"l": core.last_var(r["out"], "l")}, "op": {"name": "pressure"}}
    return None
