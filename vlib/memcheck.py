"""Checks decided with spec/MemCache.tla: C05, C13, C14, C17 (memory part), C18 (sequential part)."""
import concurrent.futures as cf
import json
import os
import time

from . import core, mem

ALGOS = ["fifo", "lru", "lfu", "s3fifo", "sieve"]
CHUNK = 120        # scripts per TLC trace-validation process
INNER_PAR = 3      # trace-validation processes per profile
RAND_QUICK = 400   # random runs per profile in the quick tier (C14; half of it for the others)


def profiles_for(pid, tier):
    """Bounded models (edge replay) and random-behaviour models (simulation) per property and tier."""
    edge, sim = _profiles_for(pid, tier)
    for p in sim:
        # closing phase of every random run: see RandParams.reserve in the harness
        p["reserve"] = 9
        p["keys"] = list(p["keys"]) + [9]
        p["hash"] = {**p["hash"], 9: 11}
    return edge, sim


def _profiles_for(pid, tier):
    P = mem.profile
    thorough = tier == "thorough"
    edge, sim = [], []
    steps = 4 if thorough else 3
    if pid == "C05":
        ops = ["insert", "get", "touch", "drop", "remove", "clear", "resize", "evict_all"]
        for a in ALGOS:
            edge.append(P(f"{a}-1shard", a, ops=ops, max_steps=steps, max_ins=3 if not thorough else 4))
        edge.append(P("fifo-3shards-gt-cap", "fifo", shards=3, hash={1: 0, 2: 1, 3: 2}, init_caps=[2, 4],
                      caps=[0, 1, 5], ops=ops, max_steps=steps))
        edge.append(P("lru-2shards", "lru", shards=2, hash={1: 0, 2: 2, 3: 1}, init_caps=[3, 4], caps=[1, 2],
                      ops=ops, max_steps=steps, hints=["normal"]))
        for a in ALGOS:
            sim.append(P(f"{a}-sim", a, keys=[1, 2, 3, 4, 5, 6], hash={1: 0, 2: 0, 3: 1, 4: 2, 5: 3, 6: 5},
                         shards=2, weights=[1, 2, 3], caps=[0, 2, 5, 9], init_caps=[4, 7], max_ins=30,
                         max_steps=40, max_held=3, ops=ops + ["clone"]))
    elif pid == "C13":
        ops = ["insert", "get", "drop", "remove", "clear", "resize", "evict_all", "flush", "drop_cache"]
        for a in ALGOS:
            edge.append(P(f"{a}-phantom", a, ops=ops, phantoms=[False, True], max_steps=steps,
                          weights=[1, 2] if thorough else [1], hints=["normal"]))
        edge.append(P("s3fifo-2shards", "s3fifo", shards=2, hash={1: 0, 2: 2, 3: 1}, init_caps=[2, 4],
                      caps=[0, 2], ops=ops, phantoms=[False, True], max_steps=steps, weights=[1]))
        # what is handed to the pipe must not depend on whether an event listener is installed: a second cache
        # without listener runs in lockstep and ITS hand-offs are the ones compared with the specification
        edge.append(P("fifo-nolistener", "fifo", ops=ops, phantoms=[False, True], max_steps=steps, weights=[1],
                      hints=["normal"], shadow_no_listener=True))
        edge.append(P("lru-2shards-nolistener", "lru", shards=2, hash={1: 0, 2: 2, 3: 1}, init_caps=[2, 4],
                      caps=[0, 2], ops=ops, phantoms=[False], max_steps=steps, weights=[1], shadow_no_listener=True))
        for a in ALGOS:
            sim.append(P(f"{a}-sim", a, keys=[1, 2, 3, 4, 5], hash={1: 0, 2: 0, 3: 1, 4: 2, 5: 3}, shards=2,
                         weights=[1, 2], phantoms=[False, True], caps=[0, 2, 5], init_caps=[3, 6], max_ins=30,
                         max_steps=40, max_held=3, ops=ops[:-1]))
    elif pid == "C14":
        ops = ["insert", "get", "drop", "remove", "resize", "touch"]
        for a in ALGOS:
            edge.append(P(f"{a}-order", a, ops=ops, max_steps=steps + 1, max_ins=4, init_caps=[3],
                          caps=[1], weights=[1, 2], hints=["normal"]))
        # (with two hints the instance at depth 5 has millions of edges: depth 4 in the thorough tier, 3 in the quick one)
        edge.append(P("lru-hints", "lru", ops=ops, max_steps=steps, max_ins=4,
                      init_caps=[3], caps=[1], weights=[1, 2]))
        edge.append(P("lru-deep", "lru", keys=[1, 2, 3], hash={1: 0, 2: 1, 3: 2}, weights=[1], hints=["normal", "low"],
                      ops=["insert", "get", "drop"], max_held=1, max_ins=5, max_steps=7 if thorough else 6,
                      init_caps=[2], caps=[]))
        edge.append(P("lru-ratio-1/4", "lru", ops=ops, max_steps=steps, cfg=dict(hiNum=1, hiDen=4),
                      init_caps=[4], caps=[2], max_ins=4))
        edge.append(P("s3fifo-thr2", "s3fifo", ops=ops, max_steps=steps + 1, cfg=dict(thr=2, sNum=1, sDen=4),
                      init_caps=[4], caps=[2], max_ins=4, weights=[1]))
        edge.append(P("lfu-ratio", "lfu", ops=ops, max_steps=steps + 1, cfg=dict(wNum=1, wDen=2, pNum=1, pDen=4),
                      init_caps=[4], caps=[2], max_ins=4, weights=[1]))
        for a in ALGOS:
            sim.append(P(f"{a}-sim", a, keys=[1, 2, 3, 4, 5, 6, 7, 8],
                         hash={1: 0, 2: 1, 3: 2, 4: 3, 5: 4, 6: 5, 7: 6, 8: 7}, shards=1, weights=[1, 2, 3],
                         caps=[3, 6, 12], init_caps=[8, 10], max_ins=40, max_steps=60, max_held=3,
                         ops=ops + ["clone", "clear"]))
        # styles: the generator draws uniformly from these lists, so repetition is weight
        h8 = {1: 0, 2: 1, 3: 2, 4: 3, 5: 4, 6: 5, 7: 6, 8: 7}
        sim.append(P("lru-lowheavy", "lru", keys=[1, 2, 3, 4, 5, 6], hash={k: h8[k] for k in range(1, 7)}, weights=[1],
                     hints=["low", "low", "normal"], caps=[4], init_caps=[4, 5], max_ins=40, max_held=2,
                     ops=["insert", "insert", "insert", "get", "get", "drop", "drop", "remove"]))
        sim.append(P("lru-ratio-lowheavy", "lru", keys=[1, 2, 3, 4, 5, 6], hash={k: h8[k] for k in range(1, 7)},
                     weights=[1, 2], hints=["low", "normal"], caps=[6], init_caps=[6, 8], max_ins=40, max_held=2,
                     cfg=dict(hiNum=1, hiDen=4), ops=["insert", "insert", "get", "get", "drop", "resize"]))
        sim.append(P("lfu-promote", "lfu", keys=[1, 2, 3, 4, 5, 6], hash={k: h8[k] for k in range(1, 7)},
                     weights=[1, 2, 3, 4], caps=[12], init_caps=[12, 16, 20], max_ins=40, max_held=1,
                     cfg=dict(wNum=1, wDen=8, pNum=1, pDen=2), ops=["insert", "insert", "get", "get", "get", "touch"]))
        sim.append(P("lfu-promote-small", "lfu", keys=[1, 2, 3, 4, 5], hash={k: h8[k] for k in range(1, 6)},
                     weights=[1, 2, 3], caps=[6], init_caps=[6, 8], max_ins=40, max_held=1,
                     cfg=dict(wNum=1, wDen=4, pNum=1, pDen=2), ops=["insert", "get", "get", "remove"]))
        sim.append(P("s3fifo-churn", "s3fifo", keys=[1, 2, 3, 4, 5, 6], hash={k: h8[k] for k in range(1, 7)},
                     weights=[1], caps=[3], init_caps=[3, 4], max_ins=40, max_held=1,
                     cfg=dict(gNum=1, gDen=2), ops=["insert", "insert", "insert", "get", "remove"]))
        sim.append(P("s3fifo-churn-weights", "s3fifo", keys=[1, 2, 3, 4, 5, 6], hash={k: h8[k] for k in range(1, 7)},
                     weights=[1, 2], caps=[4, 6], init_caps=[5, 6], max_ins=40, max_held=1,
                     cfg=dict(thr=2), ops=["insert", "insert", "get", "get", "resize"]))
        sim.append(P("sieve-churn", "sieve", keys=[1, 2, 3, 4, 5, 6], hash={k: h8[k] for k in range(1, 7)},
                     weights=[1, 2], caps=[3], init_caps=[3, 4], max_ins=40, max_held=1,
                     ops=["insert", "insert", "get", "get", "remove"]))
    elif pid == "C17":
        ops = ["insert", "get", "drop", "remove", "contains", "touch"]
        for a in ALGOS:
            # full collision (keys 1,2) and same-shard-only collision (3 with 1,2: hash 2 % 2 = 0)
            edge.append(P(f"{a}-collide", a, shards=2, hash={1: 4, 2: 4, 3: 2}, init_caps=[4], caps=[],
                          ops=ops, max_steps=steps + 1, max_ins=3, weights=[1]))
        for a in ALGOS:
            sim.append(P(f"{a}-sim", a, keys=[1, 2, 3, 4, 5, 6], hash={1: 7, 2: 7, 3: 7, 4: 9, 5: 9, 6: 2},
                         shards=2, weights=[1, 2], caps=[2, 6], init_caps=[4, 6], max_ins=30, max_steps=40,
                         max_held=3, ops=ops + ["clear", "resize"]))
    elif pid == "C18":
        ops = ["insert", "get", "touch", "clone", "drop", "remove", "clear", "resize"]
        for a in ALGOS:
            edge.append(P(f"{a}-handles", a, ops=ops, max_steps=steps + 1 if a == "lru" else steps,
                          weights=[1], hints=["normal"], max_held=3, init_caps=[2], caps=[1]))
        edge.append(P("lru-deep-handles", "lru", keys=[1, 2], hash={1: 0, 2: 1}, weights=[1], hints=["normal"],
                      ops=["insert", "get", "clone", "drop"], max_held=2, max_ins=4, max_steps=7 if thorough else 6,
                      init_caps=[1], caps=[]))
        # the same handle rules through the hit path of get_or_fetch (a lookup of a resident key by the fetch API)
        for a in ("lru", "lfu", "s3fifo"):
            edge.append(P(f"{a}-handles-fetchhit", a, ops=["insert", "get", "clone", "drop", "remove"], max_steps=steps,
                          weights=[1], hints=["normal"], max_held=3, init_caps=[2], caps=[], lookup_via_fetch=True))
        for a in ALGOS:
            sim.append(P(f"{a}-sim", a, keys=[1, 2, 3, 4, 5], hash={1: 0, 2: 0, 3: 1, 4: 2, 5: 3}, shards=1,
                         weights=[1, 2], caps=[1, 3, 6], init_caps=[3, 5], max_ins=30, max_steps=40, max_held=4,
                         ops=ops))
        sim.append(P("lru-fetchhit-sim", "lru", keys=[1, 2, 3, 4, 5], hash={1: 0, 2: 0, 3: 1, 4: 2, 5: 3}, shards=1,
                     weights=[1, 2], caps=[1, 3, 6], init_caps=[3, 5], max_ins=30, max_steps=40, max_held=4,
                     ops=ops, lookup_via_fetch=True))
    else:
        raise core.ToolError(f"no memory profiles for {pid}")
    return edge, sim


def judge(pid, d, p, ok_scripts, cand_scripts, tag):
    """Decide `pid` on recorded executions with TLC.
    ok_scripts: executions believed to conform (harness comparison said so, or unknown for random runs);
    cand_scripts: executions the harness comparison flagged (root mismatches).
    Returns (violations, stats)."""
    stats = {"tlc_exact_scripts": 0, "tlc_prop_scripts": 0, "drift": 0}
    violations = []
    # conformance: every step of every execution must be a step of the concrete specification and
    # satisfy Inv; rejected executions join the candidates
    conforming = []
    chunks = [ok_scripts[i:i + CHUNK] for i in range(0, len(ok_scripts), CHUNK)]

    def exact_chunk(ic):
        i, chunk = ic
        return chunk, mem.exact_rejections(d, p, chunk, "full", f"{tag}_c{i}")

    with cf.ThreadPoolExecutor(max_workers=INNER_PAR) as ex:
        for chunk, (acc, rej) in ex.map(exact_chunk, enumerate(chunks)):
            stats["tlc_exact_scripts"] += len(chunk)
            keep = list(chunk)
            for r in rej:
                if "invariant" in r:
                    raise core.ToolError(f"invariant of the concrete model false on a conforming execution: {r}")
                cand_scripts = cand_scripts + [chunk[r["script"]]]
                keep[r["script"]] = None
            if len(rej) < 8:  # else: too many rejections to sort out which of the rest conform
                conforming += [s for s in keep if s is not None]
    if pid == "C14":
        # victim order: the number of victims is taken from the log, their identity and order must be
        # the algorithm's (Trace_MemCache, ObsMode = "victims")
        acc, rej14 = mem.exact_rejections(d, p, cand_scripts, "victims", tag + "_cand")
        stats["tlc_prop_scripts"] += len(cand_scripts)
        for r in rej14:
            s = cand_scripts[r["script"]]
            violations.append({"kind": "victim_order", "profile": p["name"],
                               "ops": [json.loads(x)["op"] for x in s[:r["line_in_script"]]],
                               "observed": r["line"]["obs"], "op": r["line"]["op"]})
        stats["drift"] += len(cand_scripts) - len(rej14)
    else:
        vs = mem.validate_diag(d, p, cand_scripts, pid, tag + "_cand")
        stats["tlc_prop_scripts"] += len(cand_scripts)
        for v in vs:
            line = v["script"][v["line_in_script"] - 1]
            violations.append({"kind": "predicate", "bad": v["bad"], "profile": p["name"],
                               "ops": [x["op"] for x in v["script"][:v["line_in_script"]]],
                               "observed": line["obs"], "op": line["op"]})
        stats["drift"] += len(cand_scripts) - len(vs)
        # the monitor also runs over the conforming executions: an execution that is a behaviour of the
        # concrete specification (which satisfies Inv) must raise nothing, else monitor and spec disagree
        cchunks = [conforming[i:i + CHUNK] for i in range(0, len(conforming), CHUNK)]
        with cf.ThreadPoolExecutor(max_workers=INNER_PAR) as ex:
            res = list(ex.map(lambda ic: mem.validate_diag(d, p, ic[1], pid, f"{tag}_ok{ic[0]}"), enumerate(cchunks)))
        vs_ok = [v for r in res for v in r]
        stats["tlc_prop_scripts"] += len(conforming)
        if vs_ok:
            raise core.ToolError(f"monitor raises {vs_ok[0]['bad']} on an execution that conforms to the "
                                 f"concrete specification: {json.dumps(vs_ok[0])[:1500]}")
    return violations, stats


def run_profile(pid, tier, p, kind, base, seed, workers):
    d = os.path.join(base, f"{kind}-{p['name']}".replace("/", "_"))
    os.makedirs(d, exist_ok=True)
    t0 = time.time()
    out = {"profile": p["name"], "algo": p["algo"], "kind": kind}
    if kind == "edge":
        mc = mem.model_check(d, p, workers=workers)
        out["states"] = mc["distinct"]
        out["transitions"] = mc["generated"]
        scripts, em = mem.emit_edges(d, p)
        out["edges"] = em["generated"]
        rep, trace = mem.replay(d, p, scripts, kind, sample=30)
        os.remove(scripts)
        out.update(scripts=rep["scripts"], matched=rep["matched"], mismatched=rep["mismatched"],
                   roots=rep["root_mismatches"], panics=rep["panics"], nontrivial=rep["nontrivial"],
                   by_field=rep["by_field"])
        ok_scripts, cand = mem.split_trace(trace)
    else:
        num, length = (4000, 50) if tier == "thorough" else (RAND_QUICK if pid == "C14" else RAND_QUICK // 2, 30)
        trace, info = mem.random_traces(d, p, seed, num, length)
        ok_scripts, cand = mem.split_trace(trace)
        nontriv = sum(1 for s in ok_scripts if any(json.loads(x)["obs"]["ev"] for x in s))
        out.update(scripts=len(ok_scripts), matched=0, mismatched=0, roots=0, panics=info["panics"],
                   nontrivial=nontriv, by_field={}, steps=sum(len(s) for s in ok_scripts))
    violations, stats = judge(pid, d, p, ok_scripts, cand, kind)
    if out["panics"]:
        # a panic inside the cache (its own assertions included) on a valid sequence of calls of this property's
        # workload: the run could not be judged against the specification, the panic itself is the finding
        first = None
        if kind == "edge":
            first = next((m for m in rep.get("mismatches", []) if m.get("kind") == "panic"), None)
        violations.append({"kind": "predicate", "bad": "panic_in_cache_code", "profile": p["name"],
                           "ops": first["ops"] if first else [], "observed": (first or {}).get("message", f"{out['panics']} runs panicked"),
                           "op": {"name": "panic"}})
    out.update(stats)
    out["wall"] = round(time.time() - t0, 1)
    sample = None
    with open(trace) as f:
        first = [json.loads(x) for _, x in zip(range(6), f)]
    if first:
        sample = {"profile": p["name"], "kind": kind,
                  "trace_head": [{"op": e["op"], "obs": e["obs"]} for e in first]}
    return out, violations, sample


def signature(pid, v):
    if v["kind"] == "predicate":
        return {"property": pid, "bad": v["bad"], "op": v["op"].get("name", v["op"].get("a")), "profile": v.get("profile")}
    return {"property": pid, "kind": v["kind"], "algo_profile": v["profile"]}


def sig_matches(sig, known_sig):
    """A known finding is identified by the predicate that fails and the operation it fails on."""
    for a, b in known_sig.items():
        if a == "bad_contains":
            if b not in str(sig.get("bad", "")):
                return False
        elif sig.get(a) != b:
            return False
    return True


def check(pid, tier):
    t0 = time.time()
    core.build_harness()
    base = core.work_dir(f"{pid}-{tier}")
    edge, sim = profiles_for(pid, tier)
    jobs = [(p, "edge") for p in edge] + [(p, "rand") for p in sim]
    results, violations, samples = [], [], []
    par = 5
    with cf.ThreadPoolExecutor(max_workers=par) as ex:
        futs = [ex.submit(run_profile, pid, tier, p, kind, base, core.seed(), 3) for p, kind in jobs]
        for f, (p, kind) in zip(futs, jobs):
            try:
                out, vs, sample = f.result()
            except core.Aborted as e:
                # a panic that cannot unwind (or a crash) inside foyer while running this property's workload
                out = {"profile": p["name"], "algo": p["algo"], "kind": kind, "scripts": 0, "matched": 0,
                       "mismatched": 0, "roots": 0, "panics": 1, "nontrivial": 0, "by_field": {"abort": 1}}
                vs = [{"kind": "process_abort", "profile": p["name"], "ops": [], "observed": str(e)[:800],
                       "op": {"name": "abort"}, "bad": "process_abort"}]
                sample = None
            results.append(out)
            violations += vs
            if sample and len(samples) < 4:
                samples.append(sample)
            core.log(json.dumps(out))
    if pid == "C18":
        # the handle protocol under real threads: forced schedules (spec/PinRace.tla)
        from . import pinracecheck
        r2, v2, s2 = pinracecheck.run(tier, base)
        results += r2
        violations += v2
        samples += s2
        for r in r2:
            core.log(json.dumps(r))
    return finish(pid, tier, t0, results, violations, samples)


def finish(pid, tier, t0, results, violations, samples, rule=None, assumptions=None, engine="mem"):
    known = [k for k in core.load_known() if k.get("property") == pid and k.get("status") == "open"]
    new, seen_known = [], {}
    for v in violations:
        sig = signature(pid, v)
        hit = next((k for k in known if sig_matches(sig, k["signature"])), None)
        if hit:
            seen_known[hit["id"]] = hit
        else:
            new.append(v)
    for k in seen_known.values():
        print(f"KNOWN-FINDING: property={pid} {k['what']}")
    edge_res = [r for r in results if r["kind"] == "edge"]
    coverage = {
        "states": sum(r.get("states", 0) for r in edge_res),
        "transitions": sum(r.get("transitions", 0) for r in edge_res),
        "traces_validated_against_impl": sum(r["scripts"] for r in results),
        "evaluations": sum(r["scripts"] for r in results),
        "distinct_nontrivial": sum(r["nontrivial"] for r in results),
        "rule": rule or "one script per edge of the reachable graph of each bounded MC_MemCache model (TLC, VIEW hides "
                "history), executed on the real foyer_memory::Cache and compared with the specification's "
                "expected observation; plus seeded random behaviours driven by the harness, whose recorded "
                "traces TLC validates against Trace_MemCache (every step, Inv in every state) and against the "
                "per-property monitor; non-trivial = the observations contain a leave notification or a held "
                "handle; distinct by construction (distinct edges / distinct seeds)",
        "tlc_trace_validated_scripts": sum(r.get("tlc_exact_scripts", 0) + r.get("tlc_prop_scripts", 0)
                                           + r.get("tlc_trace_scripts", 0) for r in results),
        "mismatching_scripts": sum(r["mismatched"] for r in results),
        "drift_scripts": sum(r.get("drift", 0) for r in results),
        "profiles": results,
        "samples": samples or [{"note": "no trace sample"}],
        "exhaustive": True,
    }
    core.write_evidence(pid, tier, "model_checking", coverage, assumptions or [
        "the exhaustive part covers the small constants of each profile only",
        "LFU: the count-min sketch is modelled by exact counters",
        "harness bookkeeping of held handles is trusted",
    ], time.time() - t0, len(new))
    if new:
        for v in new[:5]:
            path = core.write_replay(pid, {"property": pid, "engine": v.get("engine", engine), "violation": v})
            print(f"VIOLATION property={pid} replay={path}")
        return 1
    return 0


def replay(pid, path):
    """Re-run the script of a replay file on the current tree and judge it again."""
    core.build_harness()
    with open(path) as f:
        rp = json.load(f)
    v = rp["violation"]
    if v.get("engine") == "pinrace":
        from . import pinracecheck
        v2 = pinracecheck.replay(v)
        if v2:
            out = core.write_replay(pid, {"property": pid, "engine": "pinrace", "violation": v2})
            print(f"VIOLATION property={pid} replay={out}")
            return 1
        print("replay: the recorded schedule no longer violates the property")
        return 0
    edge, sim = profiles_for(pid, "quick")
    edge_t, sim_t = profiles_for(pid, "thorough")
    p = next((x for x in edge + sim + edge_t + sim_t if x["name"] == v["profile"]), None)
    if p is None:
        raise core.ToolError(f"profile {v['profile']} of the replay file is unknown")
    d = core.work_dir(f"{pid}-replay")
    scripts = os.path.join(d, "script.txt")
    with open(scripts, "w") as f:
        f.write(json.dumps({"ops": v["ops"], "obs": None}) + "\n")
    rep, trace = mem.replay(d, p, scripts, "replay", sample=1)
    ok, cand = mem.split_trace(trace)
    violations, stats = judge(pid, d, p, [], ok + cand, "replay")
    if rep.get("panics") and not violations:
        violations = [dict(v, observed="the recorded script still panics inside the cache")]
    if violations:
        out = core.write_replay(pid, {"property": pid, "engine": "mem", "violation": violations[0]})
        print(f"VIOLATION property={pid} replay={out}")
        return 1
    print("replay: the recorded script no longer violates the property")
    return 0
