"""C10 - decided with spec/TombLog.tla: TLC model check of the ring / tail rule on small constants, and
TLC validation (Trace_TombLog, real constants) of traces recorded from the real engine with the
tombstone log enabled over delete counts around the page boundaries and several restart cycles."""
import concurrent.futures as cf
import json
import os
import random
import time

from . import core, mem


def mc_configs(tier):
    cfgs = [dict(spp=2, pages=2, nkeys=2, maxbatch=3, maxhist=7), dict(spp=3, pages=1, nkeys=2, maxbatch=2, maxhist=6),
            dict(spp=2, pages=3, nkeys=2, maxbatch=2, maxhist=8)]
    # (TombLog.tla also has Flushers = 2: the tombstones of a batch reach the log flusher by flusher, in either order.
    # With the code's tail rule TLC then violates RecentRetained / TailAfterNewest - finding F15, open - so those
    # instances are not part of the check; the two-flusher device below reports the finding on every run)
    if tier == "thorough":
        cfgs += [dict(spp=3, pages=2, nkeys=2, maxbatch=3, maxhist=9), dict(spp=2, pages=3, nkeys=3, maxbatch=3, maxhist=9)]
    return cfgs


def model_check(d, c, i):
    core.copy_specs(d, {"TombLog", "MC_TombLog"})
    name = f"MC_{i}.cfg"
    with open(os.path.join(d, name), "w") as f:
        f.write("\n".join(["SPECIFICATION Spec", "CONSTANTS", f"  SlotsPerPage = {c['spp']}", f"  Pages = {c['pages']}",
                           f"  NKeys = {c['nkeys']}", f"  MaxBatch = {c['maxbatch']}", f"  MaxHist = {c['maxhist']}",
                           f"  Flushers = {c.get('flushers', 1)}", '  TailRule = "max"',
                           "CONSTRAINT Bound", "INVARIANT Inv", "CHECK_DEADLOCK FALSE"]) + "\n")
    r = core.run_tlc(d, "MC_TombLog", name, workers=4, timeout=1200)
    core.tlc_must_pass(r, f"MC_TombLog[{c}]")
    return r


def workloads(rng, nkeys, cap, tier):
    """delete counts around the page boundaries (256 slots per page), across restart cycles with further
    deletes in each; some keys re-inserted."""
    firsts = [1, 2, 100, 254, 255, 256, 257, 300]
    firsts += [x for x in (510, 511, 512, 513, 600, 767, 768, 769, 1000) if x < cap + 40]
    if tier != "thorough":
        firsts = [x for x in firsts if x in (1, 255, 256, 257, 511, 512, 513, 769) or rng.random() < 0.3]
    out = []
    for first in firsts:
        for cycles in ([1], [2, 1], [1, 3, 2]) if tier == "thorough" else ([1], [2, 1, 1]):
            ops = [{"a": "load", "n": nkeys}]
            victim = rng.randint(1, nkeys)
            others = [k for k in range(1, nkeys + 1) if k != victim]
            ops.append({"a": "del", "ks": [victim]})
            rest = [others[i % len(others)] for i in range(first - 1)]
            for i in range(0, len(rest), 64):
                ops.append({"a": "del", "ks": rest[i:i + 64]})
            ops += [{"a": "reopen"}, {"a": "probe"}]
            for c in cycles:
                if rng.random() < 0.4:
                    ops.append({"a": "reins", "k": rng.choice(others)})
                if rng.random() < 0.5:
                    # a key written and removed inside one flushed batch: its tombstone must be logged all the same
                    ops.append({"a": "insdel", "ks": [rng.choice(others) for _ in range(rng.randint(1, 3))]})
                ops.append({"a": "del", "ks": [rng.choice(others) for _ in range(c)]})
                ops += [{"a": "reopen"}, {"a": "probe"}]
            out.append({"ops": ops})
    return out


def unique_workloads(rng, nload, cap, tier):
    """every delete hits a different key, so that the loss of ANY single tombstone is visible as a resurrection
    (a key deleted twice is still suppressed by its older tombstone).  Only `nload` keys fit on the device with a
    flushed copy: they are placed at the positions next to the page boundaries and the ring wrap-around, the other
    positions get keys that were never written.  Batches of 10 (and random sizes) straddle the page boundaries
    inside one append call; totals run up to and beyond the capacity of the ring."""
    totals = [250, 258, 300, cap - 1, cap, cap + 1, cap + 9]
    if cap > 256:
        totals += [cap - 256 + 3, cap + 256 + 5]
    if tier != "thorough":
        totals = [x for x in totals if x in (258, cap, cap + 9) or rng.random() < 0.35]
    out = []
    for total in sorted(set(x for x in totals if x > 0)):
        for style in (("tens",) if tier != "thorough" else ("tens", "random", "singles-near-boundary")):
            hot = [p for p in range(1, total + 1) if min(p % 256, 256 - p % 256) <= 40]
            cold = [p for p in range(1, total + 1) if p not in set(hot)]
            order = (hot + cold)
            keys_at = {}
            for i, pos in enumerate(order):
                # keys 1..nload have a copy on disk, the rest never existed (ids 900..999 are reserved by the
                # harness's hasher)
                keys_at[pos] = i + 1 if i + 1 < 900 else i + 101
            seq = [keys_at[p] for p in range(1, total + 1)]
            ops = [{"a": "load", "n": min(nload, total)}]
            i = 0
            restart_at = rng.choice([None, 256 + rng.randint(-3, 3), total - rng.randint(1, 20)])
            while i < len(seq):
                n = 10 if style == "tens" else rng.choice([1, 3, 10, 33, 64])
                if style == "singles-near-boundary" and min((i + 1) % 256, 256 - (i + 1) % 256) > 12:
                    n = 50
                ops.append({"a": "del", "ks": seq[i:i + n]})
                if restart_at is not None and i < restart_at <= i + n:
                    ops += [{"a": "reopen"}, {"a": "probe"}]
                i += n
            ops += [{"a": "reopen"}, {"a": "probe"}]
            # a few more after the restart (the tail must have been found), then again
            extra = [total + 201 + j for j in range(rng.randint(1, 12))]
            ops += [{"a": "del", "ks": extra}, {"a": "reopen"}, {"a": "probe"}]
            out.append({"ops": ops, "nkeys": total + 201 + len(extra)})
    return out


def run_device(d, blocks, block_pages, tier, seed, flushers=1):
    nkeys = 40
    os.makedirs(d, exist_ok=True)
    p = dict(algo="fifo", shards=1, hash={1: 0}, cfg=dict(mem.DEFAULT_CFG))     # key 1 has hash 0 (a valid hash)
    cfg = mem.harness_cfg(d, p)
    hpath = os.path.join(d, "hcfg.json")
    with open(hpath, "w") as f:
        json.dump({"policy": "woi", "flush_on_close": True, "tomblog": True, "memcap": 4, "keyloc": {},
                   "blocks": blocks, "block_pages": block_pages, "flushers": flushers}, f)
    total_pages = blocks * block_pages
    log_pages = -(-(total_pages + max(1, -(-total_pages // 256)) + 1) // 256)
    rng = random.Random(seed * 31 + blocks)
    ws = workloads(rng, nkeys, log_pages * 256, tier)
    # one-page entries: block_pages - 1 per block; keep two blocks free so that nothing is reclaimed
    nload = (blocks - 2) * (block_pages - 1)
    ws += unique_workloads(rng, nload, log_pages * 256, tier)
    nkeys = max([nkeys] + [w.get("nkeys", 0) for w in ws])
    wpath = os.path.join(d, "workloads.txt")
    with open(wpath, "w") as f:
        for w in ws:
            f.write(json.dumps(w) + "\n")
    trace = os.path.join(d, "trace.ndjson")
    core.run_harness(["disk-run", "--tomb", "--cfg", cfg, "--hcfg", hpath, "--scripts", wpath, "--trace", trace])
    scripts = {}
    pages = None
    with open(trace) as f:
        for line in f:
            e = json.loads(line)
            scripts.setdefault(e["script"], []).append(line)
            if e["a"] == "init":
                pages = e["pages"]
    core.copy_specs(d, {"TombLog", "Trace_TombLog"})
    with open(os.path.join(d, "TR.cfg"), "w") as f:
        f.write("\n".join(["SPECIFICATION TraceSpec", "CONSTANTS", "  SlotsPerPage = 256", f"  Pages = {pages}",
                           f"  NKeys = {nkeys}", "  MaxBatch = 1", "  Flushers = 1", '  TailRule = "max"',
                           f"  TSlack = {0 if flushers == 1 else 64}", "INVARIANT NoViolation_C10",
                           "POSTCONDITION Consumed", "CHECK_DEADLOCK FALSE"]) + "\n")
    violations = []
    pending = [scripts[k] for k in sorted(scripts)]
    n_scripts = len(pending)
    rounds = 0
    while pending and rounds < 6:
        rounds += 1
        tpath = os.path.join(d, f"tr_{rounds}.ndjson")
        with open(tpath, "w") as f:
            for s in pending:
                f.writelines(s)
        r = core.run_tlc(d, "Trace_TombLog", "TR.cfg", workers=1, trace=tpath, dfs_queue=True, timeout=900)
        if r.get("error"):
            raise core.ToolError(f"TLC error in Trace_TombLog: {r['error'][:2000]}")
        if not r["violated"]:
            if r.get("consumed") != r.get("trace_len"):
                raise core.ToolError(f"Trace_TombLog did not consume the whole trace:\n{r['out'][-2000:]}")
            break
        line_no = int(core.last_var(r["out"], "l")) - 1
        acc = 0
        for i, s in enumerate(pending):
            if line_no <= acc + len(s):
                evs = [json.loads(x) for x in s]
                violations.append({"kind": "predicate", "bad": core.last_var(r["out"], "bad"),
                                   "profile": f"{blocks}x{block_pages}" + (f"x{flushers}" if flushers > 1 else ""),
                                   "ops": ws[evs[0]["script"]]["ops"], "observed": evs[line_no - acc - 1],
                                   "op": {"name": "probe"}})
                pending = pending[i + 1:]
                break
            acc += len(s)
    deletes = sum(len(o.get("ks", [])) for w in ws for o in w["ops"] if o["a"] == "del")
    return {"profile": f"{blocks}x{block_pages}-log{pages}p" + (f"-{flushers}flushers" if flushers > 1 else ""), "kind": "rand", "algo": "-", "scripts": n_scripts,
            "matched": 0, "mismatched": 0, "roots": 0, "panics": 0, "nontrivial": n_scripts, "by_field": {},
            "tlc_trace_scripts": n_scripts, "deletes": deletes, "log_pages": pages}, violations, \
        {"profile": f"{blocks}x{block_pages}", "workload_head": ws[0]["ops"][:4]}


def check(tier):
    from . import memcheck
    t0 = time.time()
    core.build_harness()
    base = core.work_dir(f"C10-{tier}")
    results, violations, samples = [], [], []
    for i, c in enumerate(mc_configs(tier)):
        r = model_check(base, c, i)
        results.append({"profile": f"MC spp={c['spp']} pages={c['pages']}", "kind": "edge", "algo": "-",
                        "states": r["distinct"], "transitions": r["generated"], "scripts": 0, "matched": 0,
                        "mismatched": 0, "roots": 0, "panics": 0, "nontrivial": 0, "by_field": {}})
    devices = [(8, 16, 1), (16, 16, 1), (48, 16, 1), (16, 16, 2)] if tier == "quick" else \
        [(8, 16, 1), (16, 16, 1), (48, 16, 1), (64, 16, 1), (16, 16, 2)]
    with cf.ThreadPoolExecutor(max_workers=3) as ex:
        futs = [ex.submit(run_device, os.path.join(base, f"dev{b}f{fl}"), b, bp, tier, core.seed(), fl) for b, bp, fl in devices]
        for f in futs:
            out, vs, sample = f.result()
            results.append(out)
            violations += vs
            samples.append(sample)
            core.log(json.dumps(out))
    return memcheck.finish("C10", tier, t0, results, violations, samples[:3], rule=(
        "TLC model check of TombLog.tla (ring of SlotsPerPage x Pages slots, page buffer, append, reopen) for "
        "small constants; then workloads on the real engine with the tombstone log on: N keys loaded and flushed, "
        "delete counts 1..several pages (around 255/256/257, 511/512/513, ...) in flushed batches, re-inserts, 1-3 "
        "restart cycles with further deletes, every key probed after every restart; each recorded workload is a "
        "trace validated by TLC against Trace_TombLog with the real constants (256 slots per page); every "
        "workload is non-trivial (it contains a restart after deletes)"), assumptions=[
        "graceful restart only in this check (crash images of the log are covered by C04)",
        "every key has an older flushed copy on disk, so a lost tombstone shows as a resurrection"], engine="tomb")


def replay(path):
    core.build_harness()
    with open(path) as f:
        v = json.load(f)["violation"]
    parts = [int(x) for x in v["profile"].split("x")]
    blocks, bp = parts[0], parts[1]
    fl = parts[2] if len(parts) > 2 else 1
    d = core.work_dir("C10-replay")
    # same device, the single recorded workload
    import types
    rng = random.Random(0)
    global workloads
    saved = workloads
    workloads = lambda *a, **k: [{"ops": v["ops"]}]  # noqa: E731
    try:
        out, vs, _ = run_device(os.path.join(d, "dev"), blocks, bp, "quick", 0, fl)
    finally:
        workloads = saved
    if vs:
        p = core.write_replay("C10", {"property": "C10", "engine": "tomb", "violation": vs[0]})
        print(f"VIOLATION property=C10 replay={p}")
        return 1
    print("replay: the recorded workload no longer violates the property")
    return 0
