"""Checks decided with spec/Inflight.tla: C06 (coalescing, every caller answered) and C11 (an
explicit insert is not overwritten by an older in-flight fetch)."""
import concurrent.futures as cf
import json
import os
import random
import re
import time

from . import core, mem

ALGOS = ["fifo", "lru", "lfu", "s3fifo", "sieve"]
KINDS = ["get", "fetch", "hfetch"]
OPT = ["hit", "miss", "thr", "err"]
REQ = ["ok", "err"]


def profile(name, algo, **kw):
    p = dict(name=name, algo=algo, shards=1, keys=[1], hash={1: 0}, callers=[1, 2, 3], kinds=KINDS, opt=OPT,
             req=REQ, max_steps=6, max_user_ops=2, env=["dropc", "cancel", "ins", "rem"], cfg=dict(mem.DEFAULT_CFG))
    p.update(kw)
    return p


def profiles_for(pid, tier):
    thorough = tier == "thorough"
    edge, rand = [], []
    if pid == "C06":
        edge.append(profile("1key-3callers", "lru", max_steps=8 if thorough else 6))
        edge.append(profile("1key-3callers-fifo", "fifo", max_steps=7 if thorough else 5))
        edge.append(profile("2keys-collide", "s3fifo", keys=[1, 2], hash={1: 5, 2: 5}, max_steps=6 if thorough else 5,
                            kinds=["get", "hfetch"], opt=["hit", "miss", "err"], env=["dropc", "cancel"]))
        edge.append(profile("4callers-noinsert", "sieve", callers=[1, 2, 3, 4], max_steps=7 if thorough else 6,
                            env=["dropc", "cancel"], opt=["miss", "err"], max_user_ops=0))
    elif pid == "C17":
        # two keys with one 64-bit hash: the in-flight table must keep their fetches apart
        edge.append(profile("2keys-full-collision", "lru", keys=[1, 2], hash={1: 7, 2: 7}, max_steps=7 if thorough else 6,
                            kinds=["fetch", "hfetch"], opt=["miss", "hit"], env=["ins"], callers=[1, 2, 3], max_user_ops=1))
        edge.append(profile("2keys-full-collision-get", "fifo", keys=[1, 2], hash={1: 7, 2: 7}, max_steps=6 if thorough else 5,
                            kinds=["get", "hfetch"], opt=["miss", "hit", "err"], env=["dropc", "cancel"], max_user_ops=0))
    else:  # C11
        edge.append(profile("1key-insert", "lru", max_steps=8 if thorough else 7, env=["ins", "rem"],
                            opt=["hit", "miss"], callers=[1, 2, 3] if thorough else [1, 2], max_user_ops=3))
        edge.append(profile("1key-insert-cancel", "lfu", max_steps=7 if thorough else 6, env=["ins", "rem", "cancel", "dropc"],
                            opt=["hit", "miss"], callers=[1, 2]))
        edge.append(profile("2keys-collide-insert", "fifo", keys=[1, 2], hash={1: 3, 2: 3}, max_steps=6 if thorough else 5,
                            env=["ins", "rem"], opt=["hit", "miss"], callers=[1, 2]))
    # narrow alphabet, deep: a superseded fetch whose origin resolves after a later fetch has started
    edge.append(profile("2callers-fetch-insert-remove", "lru", callers=[1, 2], kinds=["fetch"], opt=["miss"],
                        req=["ok", "err"], env=["ins", "rem", "cancel"], max_steps=10 if thorough else 9, max_user_ops=2))
    for a in ALGOS:
        rand.append(profile(f"{a}-rand", a, keys=[1, 2], hash={1: 4, 2: 4}, callers=[1, 2, 3, 4]))
    return edge, rand


def write_model(d, p, emit):
    core.copy_specs(d, {"Inflight", "MC_Inflight"})
    lines = [
        "SPECIFICATION MCSpec", "CONSTANTS",
        f"  Keys = {core.tla_value(set(p['keys']))}", f"  Callers = {core.tla_value(set(p['callers']))}",
        f"  Kinds = {core.tla_value(set(p['kinds']))}", f"  OptOutcomes = {core.tla_value(set(p['opt']))}",
        f"  ReqOutcomes = {core.tla_value(set(p['req']))}", f"  MaxSteps = {p['max_steps']}",
        f"  MaxUserOps = {p['max_user_ops']}", "  Grain = \"run\"", f"  Emit = {'TRUE' if emit else 'FALSE'}",
        f"  EnvOps = {core.tla_value(set(p['env']))}", "CHECK_DEADLOCK FALSE",
    ]
    lines += ["VIEW MCView"] if emit else ["INVARIANT Inv"]
    name = "MC_emit.cfg" if emit else "MC_inv.cfg"
    with open(os.path.join(d, name), "w") as f:
        f.write("\n".join(lines) + "\n")
    return "MC_Inflight", name


def harness_cfg(d, p):
    return mem.harness_cfg(d, dict(p))


def replay_scripts(d, p, scripts, tag, sample):
    res = os.path.join(d, f"replay_{tag}.json")
    trace = os.path.join(d, f"trace_{tag}.ndjson")
    core.run_harness(["inflight-replay", "--cfg", harness_cfg(d, p), "--scripts", scripts, "--out", res,
                      "--trace", trace, "--trace-sample", str(sample), "--threads", "8",
                      "--callers", ",".join(str(c) for c in p["callers"]), "--prop-fields", "cal,mem"])
    with open(res) as f:
        return json.load(f), trace


def gen_random(p, rng, num, length):
    """Random environment scripts (operations only). Every script ends with a drain: all slots
    resolved and all tasks run, after which no caller may be pending (C06 'never hangs')."""
    scripts = []
    for _ in range(num):
        ops = [{"a": "init"}]
        called = []
        for _ in range(length):
            choices = ["run"] * 3 + ["ropt", "rreq", "rreq"] + ["ins", "rem", "dropc", "cancel"]
            if len(called) < len(p["callers"]):
                choices += ["call"] * 4
            a = rng.choice(choices)
            if a == "call":
                c = p["callers"][len(called)]
                called.append(c)
                ops.append({"a": "call", "c": c, "k": rng.choice(p["keys"]), "kind": rng.choice(p["kinds"])})
            elif not called and a not in ("ins", "rem"):
                continue
            elif a == "run":
                ops.append({"a": "run", "c": rng.choice(called)})
            elif a == "ropt":
                ops.append({"a": "ropt", "c": rng.choice(called), "o": rng.choice(p["opt"])})
            elif a == "rreq":
                ops.append({"a": "rreq", "c": rng.choice(called), "o": rng.choice(p["req"])})
            elif a in ("dropc", "cancel"):
                if rng.random() < 0.4:
                    ops.append({"a": a, "c": rng.choice(called)})
            else:
                ops.append({"a": a, "k": rng.choice(p["keys"])})
        for _ in range(2):
            for c in called:
                ops.append({"a": "ropt", "c": c, "o": "miss"})
                ops.append({"a": "rreq", "c": c, "o": "ok"})
            for c in called:
                ops.append({"a": "run", "c": c})
        ops.append({"a": "end"})
        scripts.append({"ops": ops, "obs": None})
    return scripts


def trace_check(d, p, scripts, invariant, tag, max_rounds=6):
    """Run Trace_Inflight over per-script traces with one invariant; returns violations
    [{script, line_in_script, bad}]."""
    if not scripts:
        return []
    core.copy_specs(d, {"Inflight", "Trace_Inflight"})
    cfgname = f"TR_{invariant}_{tag}.cfg"
    with open(os.path.join(d, cfgname), "w") as f:
        f.write("\n".join([
            "SPECIFICATION TraceSpec", "CONSTANTS", f"  Keys = {core.tla_value(set(p['keys']))}",
            f"  Callers = {core.tla_value(set(p['callers']))}", f"  INVARIANT {invariant}",
            "POSTCONDITION Consumed", "CHECK_DEADLOCK FALSE"]).replace("  INVARIANT", "INVARIANT") + "\n")
    out = []
    pending = list(scripts)
    rounds = 0
    while pending and rounds < max_rounds:
        rounds += 1
        tpath = os.path.join(d, f"tr_{invariant}_{tag}_{rounds}.ndjson")
        with open(tpath, "w") as f:
            for s in pending:
                f.writelines(s)
        r = core.run_tlc(d, "Trace_Inflight", cfgname, workers=1, trace=tpath, dfs_queue=True, timeout=900)
        if r.get("error"):
            raise core.ToolError(f"TLC error in Trace_Inflight: {r['error'][:2000]}")
        if not r["violated"]:
            if r.get("consumed") != r.get("trace_len"):
                raise core.ToolError(f"Trace_Inflight did not consume the whole trace:\n{r['out'][-2000:]}")
            break
        ls = re.findall(r"/\\ l = (\d+)", r["out"])
        bads = [core.last_var(r["out"], "bad")]
        line_no = int(ls[-1]) - 1
        acc = 0
        for i, s in enumerate(pending):
            if line_no <= acc + len(s):
                out.append({"script": [json.loads(x) for x in s], "line_in_script": line_no - acc,
                            "bad": bads[-1] if bads else r["violated"][0]})
                pending = pending[i + 1:]
                break
            acc += len(s)
        else:
            raise core.ToolError("could not locate offending line")
    return out


def run_profile(pid, tier, p, kind, base, seed):
    d = os.path.join(base, f"{kind}-{p['name']}")
    os.makedirs(d, exist_ok=True)
    t0 = time.time()
    out = {"profile": p["name"], "algo": p["algo"], "kind": kind}
    if kind == "edge":
        root, cfg = write_model(d, p, emit=False)
        mc = core.run_tlc(d, root, cfg, workers=4, timeout=1500)
        core.tlc_must_pass(mc, f"MC_Inflight[{p['name']}]")
        out["states"], out["transitions"] = mc["distinct"], mc["generated"]
        root, cfg = write_model(d, p, emit=True)
        scripts = os.path.join(d, "edges.txt")
        em = core.run_tlc(d, root, cfg, workers=1, timeout=1500, out_file=scripts)
        core.tlc_must_pass(em, f"edge emission[{p['name']}]")
        rep, trace = replay_scripts(d, p, scripts, kind, sample=30)
        os.remove(scripts)
    else:
        rng = random.Random(seed * 7919 + hash(p["name"]) % 1000)
        num, length = (300, 18) if tier == "thorough" else (60, 14)
        scripts = os.path.join(d, "rand.txt")
        with open(scripts, "w") as f:
            for s in gen_random(p, rng, num, length):
                f.write(json.dumps(s) + "\n")
        rep, trace = replay_scripts(d, p, scripts, kind, sample=num)
    out.update(scripts=rep["scripts"], matched=rep["matched"], mismatched=rep["mismatched"],
               roots=rep["root_mismatches"], panics=rep["panics"], nontrivial=rep["nontrivial"],
               by_field=rep["by_field"])
    ok, cand = mem.split_trace(trace)
    if kind == "edge":
        # a caller that is pending where the specification has it answered may only be late: every such root
        # mismatch is run again with the final drain appended (all slots resolved, all tasks run, "end"), after
        # which a pending caller is a hang
        ext = []
        for m in rep.get("mismatches", []):
            if m.get("root") and "cal" in m.get("fields", []) and len(ext) < 80:
                ops = list(m["ops"])
                called = [o["c"] for o in ops if o["a"] == "call"]
                for _ in range(2):
                    for c in called:
                        ops.append({"a": "ropt", "c": c, "o": "miss"})
                        ops.append({"a": "rreq", "c": c, "o": "ok"})
                    for c in called:
                        ops.append({"a": "run", "c": c})
                ops.append({"a": "end"})
                ext.append({"ops": ops, "obs": None})
        if ext:
            escripts = os.path.join(d, "drained.txt")
            with open(escripts, "w") as f:
                for s in ext:
                    f.write(json.dumps(s) + "\n")
            _, etrace = replay_scripts(d, p, escripts, "drained", sample=len(ext))
            ok2, cand2 = mem.split_trace(etrace)
            cand = cand + ok2 + cand2
    if kind == "rand":
        out["nontrivial"] = sum(1 for s in ok if any(c[0] not in ("idle", "pending")
                                                       for c in json.loads(s[-1])["obs"]["cal"]))
    violations = []
    for v in trace_check(d, p, cand + ok, f"NoViolation_{pid}", kind):
        line = v["script"][v["line_in_script"] - 1]
        violations.append({"kind": "predicate", "bad": v["bad"], "profile": p["name"],
                           "ops": [x["op"] for x in v["script"][:v["line_in_script"]]],
                           "observed": line["obs"], "op": line["op"]})
    # conforming executions additionally satisfy the specification's own invariants in every state
    inv = trace_check(d, p, ok if kind == "edge" else [], "TraceInv", kind + "_inv")
    if inv:
        raise core.ToolError(f"specification invariant false on a conforming execution: {json.dumps(inv[0])[:1500]}")
    drift = trace_check(d, p, ok, "NoDrift", kind + "_drift", max_rounds=1)
    out["tlc_trace_scripts"] = len(ok) + len(cand)
    out["drift"] = len(drift)
    out["wall"] = round(time.time() - t0, 1)
    with open(trace) as f:
        head = [json.loads(x) for _, x in zip(range(8), f)]
    sample = {"profile": p["name"], "kind": kind, "trace_head": [{"op": e["op"], "obs": e["obs"]} for e in head]}
    return out, violations, sample


def model_extras(pid, tier, base):
    """model-level only: (a) the invariants with tasks advancing one poll step at a time, interleaved with user
    operations and cancellation (the races a multi-threaded caller can produce); (b) for C06, liveness: every
    pending caller is eventually answered, under weak fairness of task runs and of the resolution of disk lookups
    and origin fetches (no step bound: the workload is finite)"""
    d = os.path.join(base, "model-extras")
    os.makedirs(d, exist_ok=True)
    core.copy_specs(d, {"Inflight", "MC_Inflight"})
    th = tier == "thorough"
    out = []
    common = ["CHECK_DEADLOCK FALSE", "CONSTANTS", "  Keys = {1}", "  Emit = FALSE"]
    runs = [("step", ["SPECIFICATION MCSpec"] + common + [
        '  Kinds = {"fetch", "hfetch", "get"}', '  OptOutcomes = {"miss", "hit", "err"}', '  ReqOutcomes = {"ok", "err"}',
        f"  Callers = {'{1, 2, 3}' if th else '{1, 2}'}", f"  MaxSteps = {10 if th else 12}", "  MaxUserOps = 2", '  Grain = "step"',
        '  EnvOps = {"ins", "rem", "dropc", "cancel"}', "INVARIANT Inv"])]
    if pid == "C06":
        runs.append(("live", ["SPECIFICATION LiveSpec"] + common + [
            "  Callers = {1, 2}", '  Kinds = {"fetch", "hfetch", "get"}' if th else '  Kinds = {"fetch", "hfetch"}',
            '  OptOutcomes = {"miss", "hit", "err"}' if th else '  OptOutcomes = {"miss", "hit"}', '  ReqOutcomes = {"ok", "err"}',
            "  MaxSteps = 99", f"  MaxUserOps = {2 if th else 1}", '  Grain = "run"',
            '  EnvOps = {"ins", "rem", "dropc"}' if th else '  EnvOps = {"ins", "dropc"}',
            "INVARIANT Inv", "PROPERTY EveryCallerAnswered"]))
    for name, lines in runs:
        cfg = f"X_{name}.cfg"
        with open(os.path.join(d, cfg), "w") as f:
            f.write("\n".join(lines) + "\n")
        r = core.run_tlc(d, "MC_Inflight", cfg, workers=6, timeout=3000)
        core.tlc_must_pass(r, f"MC_Inflight[{name}]")
        out.append({"profile": f"MC_Inflight {name} ({'liveness EveryCallerAnswered' if name == 'live' else 'poll-step interleavings'})",
                    "kind": "edge", "algo": "-", "states": r["distinct"], "transitions": r["generated"], "scripts": 0,
                    "matched": 0, "mismatched": 0, "roots": 0, "panics": 0, "nontrivial": 0, "by_field": {}})
    return out


def check(pid, tier):
    from . import memcheck
    t0 = time.time()
    core.build_harness()
    base = core.work_dir(f"{pid}-{tier}")
    edge, rand = profiles_for(pid, tier)
    jobs = [(p, "edge") for p in edge] + [(p, "rand") for p in rand]
    results, violations, samples = [], [], []
    with cf.ThreadPoolExecutor(max_workers=4) as ex:
        futs = [ex.submit(run_profile, pid, tier, p, kind, base, core.seed()) for p, kind in jobs]
        for f in futs:
            out, vs, sample = f.result()
            results.append(out)
            violations += vs
            if len(samples) < 3:
                samples.append(sample)
            core.log(json.dumps(out))
    for r in model_extras(pid, tier, base):
        results.append(r)
        core.log(json.dumps(r))
    return memcheck.finish(pid, tier, t0, results, violations, samples, rule=(
        "one script per edge of the reachable graph of each bounded MC_Inflight model (environment actions: call, "
        "run task, resolve disk lookup / origin, drop caller, cancel task, user insert / remove), executed on the "
        "real Cache::get_or_fetch_inner with hand-driven runtimes and futures and compared with the specification's "
        "expected observation; plus seeded random environment scripts ending in a drain (no caller may stay "
        "pending); all recorded traces are validated by TLC against Trace_Inflight; non-trivial = some caller was "
        "answered"), assumptions=[
        "one turn of a task's executor is atomic with respect to the driver (single-threaded schedules); the "
        "check-close-then-poll race between threads is analysed at model level only",
        "exhaustive only for the small constants of each profile"], engine="inflight")


def replay(pid, path):
    core.build_harness()
    with open(path) as f:
        v = json.load(f)["violation"]
    allp = [x for t in ("quick", "thorough") for grp in profiles_for(pid, t) for x in grp]
    p = next((x for x in allp if x["name"] == v["profile"]), None)
    if p is None:
        raise core.ToolError(f"profile {v['profile']} of the replay file is unknown")
    d = core.work_dir(f"{pid}-replay")
    scripts = os.path.join(d, "script.txt")
    with open(scripts, "w") as f:
        f.write(json.dumps({"ops": v["ops"], "obs": None}) + "\n")
    rep, trace = replay_run(d, p, scripts)
    ok, cand = mem.split_trace(trace)
    vs = trace_check(d, p, ok + cand, f"NoViolation_{pid}", "replay")
    if vs:
        line = vs[0]["script"][vs[0]["line_in_script"] - 1]
        out = core.write_replay(pid, {"property": pid, "engine": "inflight", "violation": {
            "kind": "predicate", "bad": vs[0]["bad"], "profile": p["name"],
            "ops": [x["op"] for x in vs[0]["script"][:vs[0]["line_in_script"]]], "observed": line["obs"],
            "op": line["op"]}})
        print(f"VIOLATION property={pid} replay={out}")
        return 1
    print("replay: the recorded script no longer violates the property")
    return 0


def replay_run(d, p, scripts):
    return _replay(d, p, scripts)


def _replay(d, p, scripts):
    res = os.path.join(d, "replay_single.json")
    trace = os.path.join(d, "trace_single.ndjson")
    core.run_harness(["inflight-replay", "--cfg", harness_cfg(d, p), "--scripts", scripts, "--out", res,
                      "--trace", trace, "--trace-sample", "1", "--threads", "1",
                      "--callers", ",".join(str(c) for c in p["callers"]), "--prop-fields", "cal,mem"])
    with open(res) as f:
        return json.load(f), trace
