"""C04 (crash at any device-write boundary, torn writes) and C07 (layout / scan / loadability) - decided with
spec/DiskImage.tla: TLC model check of MC_DiskImage (writer + crash + recovery on small constants) and TLC
validation (Trace_DiskImage, real constants) of traces recorded from the real engine behind the recording
io engine, with crash images materialised from the ordered write log."""
import concurrent.futures as cf
import json
import os
import random
import time

from . import core, mem

KEYS = [1, 2, 3, 4]
HASH = {1: 5, 2: 6, 3: 7, 4: 8}


def mc_configs(tier):
    base = dict(blocks=4, bp=4, icap=2, sizes=[1, 2], maxbatch=2, maxentries=5, maxcrashes=1)
    cfgs = [base, dict(base, bp=5, icap=3, maxentries=4)]
    if tier == "thorough":
        cfgs += [dict(base, bp=6, icap=2, maxentries=6, maxcrashes=2, blocks=5), dict(base, maxbatch=3, maxentries=6)]
    return cfgs


def model_check(d, c, i, faults=0):
    core.copy_specs(d, {"DiskImage", "MC_DiskImage"})
    root = f"DIrun{i}"
    with open(os.path.join(d, root + ".tla"), "w") as f:
        f.write(f"---- MODULE {root} ----\nEXTENDS MC_DiskImage\nc_Hash == (1 :> 5 @@ 2 :> 6)\n====\n")
    name = f"MC_{i}.cfg"
    with open(os.path.join(d, name), "w") as f:
        f.write("\n".join(["SPECIFICATION Spec", "CONSTANTS", f"  Blocks = {core.tla_value(set(range(c['blocks'])))}",
                           f"  BP = {c['bp']}", f"  IndexCap = {c['icap']}", "  Keys = {1, 2}", "  Hash <- c_Hash",
                           f"  EntrySizes = {core.tla_value(set(c['sizes']))}", f"  MaxBatch = {c['maxbatch']}",
                           f"  MaxEntries = {c['maxentries']}", f"  MaxCrashes = {c['maxcrashes']}",
                           f"  MaxFaults = {faults}", "INVARIANT " + ("FaultInv" if faults else "Inv"),
                           "CHECK_DEADLOCK FALSE"]) + "\n")
    r = core.run_tlc(d, root, name, workers=6, timeout=2400)
    core.tlc_must_pass(r, f"MC_DiskImage[{c}]")
    return r


def crash_workloads(rng, num, tomblog):
    ws = []
    for _ in range(num):
        ops = []
        for _round in range(rng.randint(2, 4)):
            ops.append({"a": "gate_on"})
            # burst: the submissions of the round and the wait request reach the flusher in one go (no
            # background task runs in between, as in `delete(k); wait().await` on one task)
            burst = rng.random() < 0.5
            if _round > 0 and rng.random() < 0.3:
                # a round that only deletes (the acknowledgement then rests on the tombstone log write alone)
                for k in rng.sample(KEYS, rng.randint(1, 2)):
                    ops.append({"a": "rem", "k": k, "noturn": burst})
            else:
                for _ in range(rng.randint(1, 5)):
                    k = rng.choice(KEYS)
                    ops.append({"a": "rem" if rng.random() < 0.25 else "ins", "k": k, "noturn": burst})
            ops.append({"a": "drain", "probes": True, "tears": True})
            ops.append({"a": "wait"})
            ops.append({"a": "probe"})
            if rng.random() < 0.4:
                # a real restart of the engine: what is written afterwards must supersede what was recovered
                ops.append({"a": "reopen"})
        ws.append({"ops": ops})
    return ws


def layout_workloads(rng, num, big):
    ws = []
    for _ in range(num):
        ops = []
        for _batch in range(rng.randint(2, 4)):
            ops.append({"a": "hold"})
            n = rng.choice([1, 2, 3, 7, 15, 16, 40] if not big else [1, 50, 169, 170, 171, 200, 254, 255, 256, 300])
            if big and _batch == 0:
                n = rng.choice([171, 200, 254, 256, 300])     # at least one block with a second blob
            for _ in range(n):
                ops.append({"a": "ins", "k": rng.choice(KEYS)})
            if rng.random() < 0.3:
                ops.append({"a": "rem", "k": rng.choice(KEYS)})
            ops.append({"a": "unhold"})
            ops.append({"a": "wait"})
            ops.append({"a": "q"})
        ops.append({"a": "reopen"})
        ops.append({"a": "q"})
        ws.append({"ops": ops})
    return ws


def full_index_workloads(rng, num):
    """blocks of more than two full blob indexes (170 entries each): batches that end exactly when the index of
    the first / second / third blob of a block is full, followed by further batches into the same block"""
    pats = [[170, 170, 10, 5], [100, 70, 170, 20], [170, 340, 7], [169, 1, 169, 1, 3], [340, 170, 2, 170], [170, 171, 169, 9]]
    ws = []
    for i in range(num):
        ops = []
        for n in pats[i % len(pats)] if i < len(pats) else [rng.choice([1, 169, 170, 171, 340]) for _ in range(4)]:
            ops.append({"a": "hold"})
            for _ in range(n):
                ops.append({"a": "ins", "k": rng.choice(KEYS)})
            ops += [{"a": "unhold"}, {"a": "wait"}, {"a": "q"}]
        ops += [{"a": "reopen"}, {"a": "q"}]
        ws.append({"ops": ops})
    return ws


def single_entry_workloads(rng, num, count):
    """one entry per acknowledged batch (so that blocks fill up exactly at batch boundaries), lookups now and then
    and after a restart; interleaved with a few larger batches"""
    ws = []
    for _ in range(num):
        ops = []
        for i in range(count):
            ops += [{"a": "ins", "k": rng.choice(KEYS)}, {"a": "wait"}]
            if i % 6 == 5:
                ops.append({"a": "q"})
            if rng.random() < 0.1:
                ops.append({"a": "hold"})
                ops += [{"a": "ins", "k": rng.choice(KEYS)} for _ in range(rng.randint(2, 9))]
                ops += [{"a": "unhold"}, {"a": "wait"}, {"a": "q"}]
        ops += [{"a": "q"}, {"a": "reopen"}, {"a": "q"}]
        ws.append({"ops": ops})
    return ws


def fault_workloads(rng, num, all_faults):
    """a small image with overwrites, deletes and a multi-batch blob; a snapshot in the middle provides the
    older generation of every page; then every fault class on every used page"""
    ws = []
    for i in range(num):
        ops = []
        for _ in range(rng.randint(2, 4)):
            ops.append({"a": "ins", "k": rng.choice(KEYS)})
        ops += [{"a": "wait"}, {"a": "snapshot"}]
        for _ in range(rng.randint(2, 5)):
            k = rng.choice(KEYS)
            ops.append({"a": "rem", "k": k} if rng.random() < 0.25 else {"a": "ins", "k": k})
        ops += [{"a": "wait"}, {"a": "q"}, {"a": "faults", "all": all_faults, "seed": rng.randint(1, 10**6)}]
        ws.append({"ops": ops})
    return ws


def reclaim_workloads(rng, num, inserts, with_q_every, big=()):
    """sustained inserts of several device capacities (no deletes), acknowledged and looked up regularly; with
    `big`, batches that span several blocks are submitted at once on the full device (several clean-block
    requests parked together) while reads and writes of the device complete in a chosen order (the reclaimer
    reads the block it reclaims: "wf" = reads are slower than writes, "rf" = faster, "rand")"""
    ws = []
    for j in range(num):
        ops = []
        for i in range(inserts):
            ops.append({"a": "ins", "k": rng.choice(KEYS)})
            if (i + 1) % with_q_every == 0:
                ops += [{"a": "wait"}, {"a": "q"}]
            if big and (i + 1) % (3 * with_q_every) == 0:
                ops += [{"a": "wait"}, {"a": "hold"}]
                ops += [{"a": "ins", "k": rng.choice(KEYS)} for _ in range(rng.choice(big))]
                ops += [{"a": "gate_rw"}, {"a": "unhold"},
                        {"a": "drain_sched", "order": ["wf", "rf", "rand"][(j + i) % 3], "seed": rng.randint(1, 10**6)},
                        {"a": "wait"}, {"a": "q"}]
        ops += [{"a": "wait"}, {"a": "q"}]
        ws.append({"ops": ops})
    return ws


def burst_workloads(rng, num, blocks, per_block):
    """the very first thing a fresh device sees is one batch that spans all its blocks (and more), with the
    device's reads and writes completing in a chosen order; then steady single inserts"""
    ws = []
    for j in range(num):
        n = blocks * per_block + rng.choice([0, 1, per_block, 2 * per_block])
        ops = [{"a": "hold"}] + [{"a": "ins", "k": rng.choice(KEYS)} for _ in range(n)]
        ops += [{"a": "gate_rw"}, {"a": "unhold"},
                {"a": "drain_sched", "order": ["wf", "rf", "rand"][j % 3], "seed": rng.randint(1, 10**6)},
                {"a": "wait"}, {"a": "q"}]
        for i in range(2 * per_block):
            ops += [{"a": "ins", "k": rng.choice(KEYS)}, {"a": "wait"}, {"a": "q"}]
        ws.append({"ops": ops})
    return ws


def exact_reinsertion_workloads(num, per_block, laps):
    """one block holds exactly `per_block` live entries of keys the reinsertion filter admits; single inserts of
    another key (each acknowledged before the next) push the device round, so that the reclaim of that block
    re-submits exactly `per_block` pages on their own - the size of the flusher's io buffer in this profile"""
    ws = []
    for _ in range(num):
        ops = []
        for k in KEYS[:per_block]:
            ops += [{"a": "ins", "k": k}]
        ops += [{"a": "wait"}, {"a": "q"}]
        for i in range(laps):
            ops += [{"a": "ins", "k": KEYS[-1]}, {"a": "wait"}]
            if i % 5 == 4:
                ops.append({"a": "q"})
        ops += [{"a": "q"}]
        ws.append({"ops": ops})
    return ws


def restart_workloads(rng, num):
    """sustained inserts, a graceful restart, further inserts that force reclaims, another restart, lookups: what is
    recovered must never be an older version of a key whose newer version was acknowledged"""
    ws = []
    for _ in range(num):
        n = rng.choice([20, 23, 24, 25, 26, 27, 30, 33, 40, 47, 48, 49])
        ops = [{"a": "ins", "k": rng.choice(KEYS)} for _ in range(n)]
        ops += [{"a": "wait"}, {"a": "q"}, {"a": "reopen"}, {"a": "q"}]
        for _ in range(rng.randint(6, 12)):
            ops += [{"a": "ins", "k": rng.choice(KEYS)}, {"a": "wait"}, {"a": "q"}]
        ops += [{"a": "reopen"}, {"a": "q"}, {"a": "ins", "k": rng.choice(KEYS)}, {"a": "wait"}, {"a": "q"}]
        ws.append({"ops": ops})
    return ws


def mc_reclaim(d, tier):
    core.copy_specs(d, {"Reclaim", "MC_Reclaim"})
    cfgs = [dict(blocks=3, fl=1, rc=1, keys=[1, 2], cap=2, reins=[1], w=6, r=3),
            dict(blocks=4, fl=2, rc=2, keys=[1], cap=1, reins=[], w=5, r=3)]
    if tier == "thorough":
        cfgs += [dict(blocks=4, fl=1, rc=1, keys=[1, 2], cap=2, reins=[1], w=8, r=4),
                 dict(blocks=4, fl=2, rc=1, keys=[1, 2], cap=1, reins=[2], w=6, r=3)]
    out = []
    for i, c in enumerate(cfgs):
        name = f"RC_{i}.cfg"
        with open(os.path.join(d, name), "w") as f:
            f.write("\n".join(["SPECIFICATION Spec", "CONSTANTS", f"  Blocks = {core.tla_value(set(range(c['blocks'])))}",
                               f"  Flushers = {core.tla_value(set(range(1, c['fl'] + 1)))}", f"  Reclaimers = {c['rc']}",
                               "  Threshold = 1", f"  Keys = {core.tla_value(set(c['keys']))}", f"  BlockCap = {c['cap']}",
                               f"  Reinsert = {core.tla_value(set(c['reins']))}", f"  MaxWrites = {c['w']}",
                               f"  MaxReclaims = {c['r']}", "CONSTRAINT Bound", "INVARIANT Inv", "CHECK_DEADLOCK FALSE"]) + "\n")
        r = core.run_tlc(d, "MC_Reclaim", name, workers=6, timeout=1500)
        core.tlc_must_pass(r, f"MC_Reclaim[{c}]")
        out.append({"profile": f"MC_Reclaim blocks={c['blocks']} flushers={c['fl']} reclaimers={c['rc']}", "kind": "edge",
                    "algo": "-", "states": r["distinct"], "transitions": r["generated"], "scripts": 0, "matched": 0,
                    "mismatched": 0, "roots": 0, "panics": 0, "nontrivial": 0, "by_field": {}})
    # liveness under weak fairness of the flusher and reclaimer steps, without a state constraint (the writes are
    # bounded inside the action, so the graph is finite): every flusher that waits for a clean block gets one
    live = [dict(blocks=3, fl=2, rc=1, w=5)] + ([dict(blocks=4, fl=2, rc=2, w=6), dict(blocks=3, fl=3, rc=1, w=5)]
                                               if tier == "thorough" else [])
    for i, c in enumerate(live):
        name = f"RCL_{i}.cfg"
        with open(os.path.join(d, name), "w") as f:
            f.write("\n".join(["SPECIFICATION FairSpec", "CONSTANTS", f"  Blocks = {core.tla_value(set(range(c['blocks'])))}",
                               f"  Flushers = {core.tla_value(set(range(1, c['fl'] + 1)))}", f"  Reclaimers = {c['rc']}",
                               "  Threshold = 1", "  Keys = {1}", "  BlockCap = 1", "  Reinsert = {}",
                               f"  MaxWrites = {c['w']}", "  MaxReclaims = 99", "INVARIANT Inv",
                               "PROPERTY EveryWaiterServed", "CHECK_DEADLOCK FALSE"]) + "\n")
        r = core.run_tlc(d, "MC_Reclaim", name, workers=6, timeout=1800)
        core.tlc_must_pass(r, f"MC_Reclaim liveness[{c}]")
        out.append({"profile": f"MC_Reclaim liveness EveryWaiterServed blocks={c['blocks']} flushers={c['fl']}", "kind": "edge",
                    "algo": "-", "states": r["distinct"], "transitions": r["generated"], "scripts": 0, "matched": 0,
                    "mismatched": 0, "roots": 0, "panics": 0, "nontrivial": 0, "by_field": {}})
    return out


def run_profile(pid, d, name, blocks, bp, pad, tomblog, ws, invariant, compression="", extra=None, fifo=False,
                reinsert_keys=()):
    os.makedirs(d, exist_ok=True)
    job = dict(blocks=blocks, bp=bp, pad=pad, tomblog=tomblog, compression=compression, extra=extra, fifo=fifo,
               reinsert_keys=list(reinsert_keys))
    p = dict(algo="fifo", shards=1, hash=HASH, cfg=dict(mem.DEFAULT_CFG))
    cfg = mem.harness_cfg(d, p)
    hpath = os.path.join(d, "hcfg.json")
    with open(hpath, "w") as f:
        hc = {"policy": "woi", "flush_on_close": True, "tomblog": tomblog, "memcap": 2,
              "keyloc": {}, "blocks": blocks, "block_pages": bp, "pad": pad, "compression": compression}
        hc.update(extra or {})
        json.dump(hc, f)
    wpath = os.path.join(d, "workloads.txt")
    with open(wpath, "w") as f:
        for w in ws:
            f.write(json.dumps(w) + "\n")
    trace = os.path.join(d, "trace.ndjson")
    try:
        info = json.loads(core.run_harness(["disk-run", "--cfg", cfg, "--hcfg", hpath, "--scripts", wpath, "--trace", trace],
                                           timeout=3000).strip().splitlines()[-1])
    except core.ToolError as e:
        if pid == "C09" and "did not return" in str(e):
            # wait() / close() never returned although the device gate is open: writers stalled
            import re
            m = re.search(r"script (\d+):", str(e))
            stalled = ws[int(m.group(1))] if m else ws[0]
            return ({"profile": name, "kind": "rand", "algo": "-", "scripts": 0, "matched": 0, "mismatched": 0, "roots": 0,
                     "panics": 0, "nontrivial": 0, "by_field": {"stall": 1}},
                    [{"kind": "stall", "bad": "writers_stalled_wait_did_not_return", "profile": name, "ops": stalled["ops"],
                      "observed": str(e)[-300:], "op": {"name": "wait"}, "job": job}], {"profile": name})
        raise
    core.copy_specs(d, {"DiskImage", "Trace_DiskImage"})
    root = "DItrace"
    with open(os.path.join(d, root + ".tla"), "w") as f:
        f.write(f"---- MODULE {root} ----\nEXTENDS Trace_DiskImage\nc_Hash == {core.tla_value(HASH)}\n====\n")
    scripts = {}
    with open(trace) as f:
        for line in f:
            scripts.setdefault(json.loads(line)["script"], []).append(line)
    pending = [scripts[k] for k in sorted(scripts)]
    violations, drift = [], 0
    for inv in (invariant, "NoDrift"):
        cfgname = f"TR_{inv}.cfg"
        with open(os.path.join(d, cfgname), "w") as f:
            f.write("\n".join(["SPECIFICATION TraceSpec", "CONSTANTS", f"  Blocks = {core.tla_value(set(range(blocks)))}",
                               f"  BP = {bp}", "  IndexCap = 170", f"  Keys = {core.tla_value(set(KEYS))}",
                               "  Hash <- c_Hash", f"  TombLogOn = {core.tla_value(tomblog)}",
                               f"  FifoOrder = {core.tla_value(fifo)}", f"  ReinsertKeys = {core.tla_value(set(reinsert_keys))}",
                               f"INVARIANT {inv}", "POSTCONDITION Consumed", "CHECK_DEADLOCK FALSE"]) + "\n")
        todo = list(pending)
        rounds = 0
        while todo and rounds < (5 if inv != "NoDrift" else 1):
            rounds += 1
            tpath = os.path.join(d, f"tr_{inv}_{rounds}.ndjson")
            with open(tpath, "w") as f:
                for s in todo:
                    f.writelines(s)
            r = core.run_tlc(d, root, cfgname, workers=1, trace=tpath, dfs_queue=True, timeout=1800, heap="6g")
            if r.get("error"):
                raise core.ToolError(f"TLC error in Trace_DiskImage: {r['error'][:2500]}")
            if not r["violated"]:
                if r.get("consumed") != r.get("trace_len"):
                    raise core.ToolError(f"Trace_DiskImage did not consume the whole trace:\n{r['out'][-2000:]}")
                break
            line_no = int(core.last_var(r["out"], "l")) - 1
            acc = 0
            for i, s in enumerate(todo):
                if line_no <= acc + len(s):
                    evs = [json.loads(x) for x in s]
                    if inv == "NoDrift":
                        drift += 1
                    else:
                        violations.append({"kind": "predicate", "bad": core.last_var(r["out"], "bad"), "profile": name,
                                           "ops": ws[evs[0]["script"]]["ops"], "observed": evs[line_no - acc - 1],
                                           "op": {"name": evs[line_no - acc - 1]["a"]}, "job": job})
                    todo = todo[i + 1:]
                    break
                acc += len(s)
    return {"profile": name, "kind": "rand", "algo": "-", "scripts": len(pending), "matched": 0, "mismatched": 0,
            "roots": 0, "panics": 0, "nontrivial": len(pending), "by_field": {}, "tlc_trace_scripts": len(pending),
            "events": info["events"], "crash_probes": info["probes"], "drift": drift}, violations, \
        {"profile": name, "trace_head": [json.loads(x) for x in pending[0][:6]] if pending else []}


def check(pid, tier):
    from . import memcheck
    t0 = time.time()
    core.build_harness()
    base = core.work_dir(f"{pid}-{tier}")
    results, violations, samples = [], [], []
    th = tier == "thorough"

    def mc(ic):
        i, c = ic
        r = model_check(base, c, i, faults=(2 if th else 1) if pid == "C03" else 0)
        return {"profile": f"MC bp={c['bp']} icap={c['icap']} entries<={c['maxentries']} crashes<={c['maxcrashes']}"
                           + (" faults" if pid == "C03" else ""),
                "kind": "edge", "algo": "-", "states": r["distinct"], "transitions": r["generated"], "scripts": 0,
                "matched": 0, "mismatched": 0, "roots": 0, "panics": 0, "nontrivial": 0, "by_field": {}}

    rng = random.Random(core.seed() * 7 + (4 if pid == "C04" else 7))
    jobs = []
    if pid == "C03":
        n = 6 if th else 1
        jobs.append(("faults-tomb1-none", 4, 8, 0, True, fault_workloads(rng, n, th), "NoViolation_C03", ""))
        jobs.append(("faults-tomb0-2page", 4, 8, 5000, False, fault_workloads(rng, n, th), "NoViolation_C03", ""))
        jobs.append(("faults-tomb1-zstd", 4, 8, 300, True, fault_workloads(rng, n, th), "NoViolation_C03", "zstd"))
        jobs.append(("faults-tomb0-lz4", 4, 8, 300, False, fault_workloads(rng, n, th), "NoViolation_C03", "lz4"))
    elif pid == "C04":
        n = 40 if th else 14
        for tomblog in (True, False):
            for pad in (0, 5000):
                jobs.append((f"crash-tomb{int(tomblog)}-pad{pad}", 16, 16, pad, tomblog, crash_workloads(rng, n, tomblog),
                             "NoViolation_C04"))
    elif pid == "C07":
        n = 30 if th else 6
        jobs.append(("layout-16p-pad0", 16, 16, 0, True, layout_workloads(rng, n, False), "NoViolation_C07"))
        jobs.append(("layout-16p-pad5000", 16, 16, 5000, False, layout_workloads(rng, n, False), "NoViolation_C07"))
        jobs.append(("layout-16p-pad9000", 16, 16, 9000, False, layout_workloads(rng, n, False), "NoViolation_C07"))
        jobs.append(("layout-256p-indexcap", 6, 256, 0, False, layout_workloads(rng, max(4, n // 3), True), "NoViolation_C07"))
        # entries of exactly one / two pages (serialized length a multiple of the page size)
        jobs.append(("layout-256p-exact1page", 6, 256, 4032, False, layout_workloads(rng, max(3, n // 4), True), "NoViolation_C07"))
        jobs.append(("layout-16p-exact2pages", 16, 16, 8128, False, layout_workloads(rng, n, False), "NoViolation_C07"))
        jobs.append(("layout-600p-fullindex", 4, 600, 0, False, full_index_workloads(rng, 6 if th else 3), "NoViolation_C07"))
        # blob indexes of two and three pages (with_blob_index_size), blocks that fill up exactly at batch boundaries
        jobs.append(("layout-16p-index2p", 8, 16, 0, False, single_entry_workloads(rng, 4 if th else 2, 45),
                     "NoViolation_C07", "", {"blob_index_pages": 2}))
        jobs.append(("layout-16p-index3p-2page-entries", 8, 16, 5000, False,
                     single_entry_workloads(rng, 4 if th else 2, 30) + layout_workloads(rng, 2, False),
                     "NoViolation_C07", "", {"blob_index_pages": 3}))
        jobs.append(("layout-16p-singles", 8, 16, 0, False, single_entry_workloads(rng, 4 if th else 2, 45), "NoViolation_C07"))
    if pid == "C09":
        n = 6 if th else 2
        # 8 blocks of 4 pages: 3 one-page entries per block, 24 per device capacity
        jobs.append(("reclaim-1flusher-fifo", 8, 4, 0, False, reclaim_workloads(rng, n, 24 * (6 if th else 4), 10),
                     "NoViolation_C09", "", {"flushers": 1, "reclaimers": 1, "clean_threshold": 1}, True, ()))
        jobs.append(("reclaim-2flushers-2reclaimers", 8, 4, 0, False, reclaim_workloads(rng, n, 24 * (6 if th else 3), 7),
                     "NoViolation_C09", "", {"flushers": 2, "reclaimers": 2, "clean_threshold": 2}, False, ()))
        jobs.append(("reclaim-reinsertion", 8, 4, 0, False, reclaim_workloads(rng, n, 24 * 3, 5),
                     "NoViolation_C09", "", {"flushers": 1, "reclaimers": 1, "clean_threshold": 1, "reinsert": [HASH[1]]},
                     True, (1,)))
        jobs.append(("reclaim-bigbatch-sched", 8, 4, 0, False,
                     reclaim_workloads(rng, 6 if th else 3, 24 * 3, 8, big=(9, 12, 15)),
                     "NoViolation_C09", "", {"flushers": 1, "reclaimers": 1, "clean_threshold": 1}, False, ()))
        jobs.append(("reclaim-bigbatch-2flushers", 8, 4, 0, False,
                     reclaim_workloads(rng, 6 if th else 3, 24 * 3, 8, big=(9, 12, 15)),
                     "NoViolation_C09", "", {"flushers": 2, "reclaimers": 1, "clean_threshold": 1}, False, ()))
        jobs.append(("reclaim-restarts", 8, 4, 0, False, restart_workloads(rng, 40 if th else 14),
                     "NoViolation_C09", "", {"flushers": 1, "reclaimers": 1, "clean_threshold": 1}, False, ()))
        jobs.append(("reclaim-fresh-burst", 4, 4, 0, False, burst_workloads(rng, 6 if th else 3, 4, 3),
                     "NoViolation_C09", "", {"flushers": 1, "reclaimers": 1, "clean_threshold": 1}, False, ()))
        jobs.append(("reclaim-fresh-burst-8", 8, 4, 0, False, burst_workloads(rng, 6 if th else 3, 8, 3),
                     "NoViolation_C09", "", {"flushers": 2, "reclaimers": 2, "clean_threshold": 2}, False, ()))
        jobs.append(("reclaim-reinsert-exactbuffer", 8, 4, 0, False, exact_reinsertion_workloads(2, 3, 40 if th else 30),
                     "NoViolation_C09", "", {"flushers": 1, "reclaimers": 1, "clean_threshold": 1, "buffer_pages": 3,
                                             "reinsert": [HASH[1], HASH[2], HASH[3]]}, True, (1, 2, 3)))
        jobs.append(("reclaim-2page-entries", 6, 8, 5000, False, reclaim_workloads(rng, n, 18 * 4, 6),
                     "NoViolation_C09", "", {"flushers": 1, "reclaimers": 2, "clean_threshold": 2}, True, ()))
    with cf.ThreadPoolExecutor(max_workers=4) as ex:
        if pid == "C09":
            results += mc_reclaim(base, tier)
        mcs = mc_configs(tier) if pid != "C09" else []
        if pid == "C03":
            mcs = [dict(c, maxentries=min(c["maxentries"], 4), maxcrashes=0) for c in mcs[:2]]
        mcf = [ex.submit(mc, ic) for ic in enumerate(mcs)]
        futs = [ex.submit(run_profile, pid, os.path.join(base, j[0]), *j) for j in jobs]
        for f in mcf:
            results.append(f.result())
        for f in futs:
            out, vs, sample = f.result()
            results.append(out)
            violations += vs
            samples.append(sample)
            core.log(json.dumps(out))
    return memcheck.finish(pid, tier, t0, results, violations, samples[:3], rule=(
        "TLC model check of MC_DiskImage (layout function = Splitter::split, device writes issued one at a time, crash at "
        "every write boundary with every page-granular tear of the write in flight, scanner + recovery) on small "
        "constants; then seeded workloads on the real engine behind the recording io engine: for C04 the device writes of "
        "each round are released one at a time and after each (and for every page prefix of the next block write) the "
        "partition files are copied and opened by a fresh engine and every key looked up; for C07 batches delimited by "
        "the flush switch, lookups and index dump at every quiescent point and after a restart. The completed writes are "
        "classified by the harness's own parser of the on-disk format and the whole recording is validated by TLC "
        "against Trace_DiskImage with the real constants; every workload is non-trivial (writes + probes)"),
        assumptions=["no block is reclaimed in these workloads (device larger than the workload), as the 'acknowledged "
                     "version or newer' clause of C04 requires",
                     "a torn write applies a page prefix of the write in flight (pages are written in order)",
                     "blob index of one page (the default)"], engine="disk")


def replay(pid, path):
    core.build_harness()
    with open(path) as f:
        v = json.load(f)["violation"]
    j = v["job"]
    d = core.work_dir(f"{pid}-replay")
    out, vs, _ = run_profile(pid, os.path.join(d, "r"), v["profile"], j["blocks"], j["bp"], j["pad"], j["tomblog"],
                             [{"ops": v["ops"]}], f"NoViolation_{pid}", j["compression"], j["extra"], j["fifo"],
                             tuple(j["reinsert_keys"]))
    if vs:
        p = core.write_replay(pid, {"property": pid, "engine": "disk", "violation": vs[0]})
        print(f"VIOLATION property={pid} replay={p}")
        return 1
    print("replay: the recorded workload no longer violates the property")
    return 0
