"""C16 - user callbacks run outside the cache's locks: spec/MemLocks.tla model-checked (and its mutated
variant must fail), then every edge script of bounded MC_MemCache models is executed on the real cache with
a weighter, filter, listener, pipe and value destructor that all call back into the same cache (operations
needing the read and the write lock of every shard); a script that does not finish is a hang."""
import concurrent.futures as cf
import json
import os
import time

from . import core, mem, memcheck

ALGOS = ["fifo", "lru", "lfu", "s3fifo", "sieve"]


def mc_locks(d, tier):
    core.copy_specs(d, {"MemLocks"})
    out = []
    cfgs = [dict(threads=[1, 2], shards=[0, 1], depth=2, ops=4), dict(threads=[1, 2, 3], shards=[0], depth=2, ops=4)]
    if tier == "thorough":
        cfgs.append(dict(threads=[1, 2], shards=[0, 1], depth=3, ops=6))
    for i, c in enumerate(cfgs):
        for mutated in (False, True):
            name = f"ML_{i}_{int(mutated)}.cfg"
            with open(os.path.join(d, name), "w") as f:
                f.write("\n".join(["SPECIFICATION Spec", "CONSTANTS", f"  Threads = {core.tla_value(set(c['threads']))}",
                                   f"  Shards = {core.tla_value(set(c['shards']))}", f"  MaxDepth = {c['depth']}",
                                   f"  MaxOps = {c['ops']}", f"  CallbackUnderLock = {core.tla_value(mutated)}",
                                   "INVARIANT Inv", "CHECK_DEADLOCK FALSE"]) + "\n")
            r = core.run_tlc(d, "MemLocks", name, workers=4, timeout=1200)
            if r.get("error"):
                raise core.ToolError(f"TLC error in MemLocks: {r['error'][:1500]}")
            if mutated:
                if not r["violated"]:
                    raise core.ToolError("self-test: MemLocks with a callback under the lock must violate Inv")
            else:
                core.tlc_must_pass(r, f"MemLocks[{c}]")
                out.append({"profile": f"MemLocks threads={len(c['threads'])} shards={len(c['shards'])} depth={c['depth']}",
                            "kind": "edge", "algo": "-", "states": r["distinct"], "transitions": r["generated"],
                            "scripts": 0, "matched": 0, "mismatched": 0, "roots": 0, "panics": 0, "nontrivial": 0,
                            "by_field": {}})
    return out


def profiles(tier):
    P = mem.profile
    steps = 4 if tier == "thorough" else 3
    ops = ["insert", "get", "touch", "clone", "drop", "remove", "clear", "resize", "evict_all", "flush"]
    ps = []
    for a in ALGOS:
        ps.append(P(f"{a}-reentrant", a, ops=ops, phantoms=[False, True], max_steps=steps, weights=[1, 2] if a == "lru" else [1],
                    hints=["normal"], reentrant=True))
    ps.append(P("lru-2shards-reentrant", "lru", shards=2, hash={1: 0, 2: 2, 3: 1}, init_caps=[2, 4], caps=[0, 2], ops=ops,
                phantoms=[False, True], max_steps=steps, weights=[1], hints=["normal"], reentrant=True))
    ps.append(P("sieve-3shards-reentrant", "sieve", shards=3, hash={1: 0, 2: 1, 3: 2}, init_caps=[3], caps=[0, 3], ops=ops,
                phantoms=[False], max_steps=steps, weights=[1], hints=["normal"], reentrant=True))
    return ps


def run_profile(p, base):
    d = os.path.join(base, p["name"])
    os.makedirs(d, exist_ok=True)
    t0 = time.time()
    scripts, em = mem.emit_edges(d, p)
    out = {"profile": p["name"], "algo": p["algo"], "kind": "edge", "edges": em["generated"]}
    violations = []
    try:
        rep, trace = mem.replay(d, p, scripts, "edge", sample=5)
        out.update(scripts=rep["scripts"], matched=rep["matched"], mismatched=rep["mismatched"],
                   roots=rep["root_mismatches"], panics=rep["panics"], nontrivial=rep["nontrivial"],
                   by_field=rep["by_field"], drift=rep["mismatched"])
    except core.Hang:
        with open(os.path.join(d, "replay_edge.json.hang")) as f:
            h = json.load(f)
        out.update(scripts=0, matched=0, mismatched=0, roots=0, panics=0, nontrivial=0, by_field={"hang": 1})
        violations.append({"kind": "hang", "bad": "operation_did_not_return_with_reentrant_callbacks", "profile": p["name"],
                           "ops": h["script"].get("ops", []), "observed": {"hang_secs": h["hang_secs"]},
                           "op": (h["script"].get("ops") or [{"name": "?"}])[-1]})
    finally:
        if os.path.exists(scripts):
            os.remove(scripts)
    out["wall"] = round(time.time() - t0, 1)
    return out, violations


def check(tier):
    t0 = time.time()
    core.build_harness()
    base = core.work_dir(f"C16-{tier}")
    results = mc_locks(base, tier)
    violations, samples = [], []
    with cf.ThreadPoolExecutor(max_workers=4) as ex:
        for out, vs in ex.map(lambda p: run_profile(p, base), profiles(tier)):
            results.append(out)
            violations += vs
            core.log(json.dumps(out))
    # no combination of concurrent operations deadlocks: the C02 driver with re-entrant callbacks, watchdog only
    from . import concheck
    with cf.ThreadPoolExecutor(max_workers=4) as ex:
        futs = [ex.submit(concheck.run_conc, "C16", base, a, s, t, max(10, r // 4), core.seed(), True)
                for a, s, t, r in concheck.conc_jobs(tier)]
        for f in futs:
            out, vs, _ = f.result()
            out["profile"] += "-reentrant-concurrent"
            results.append(out)
            violations += vs
    samples.append({"reentrant_callbacks": "weighter, filter, on_leave, Pipe::send and the value destructor each call "
                    "cache.remove / contains / get of a never-inserted key of every shard",
                    "example_script": [{"name": "init", "cap": 2}, {"name": "insert", "k": 1, "w": 1, "ph": False, "hold": False},
                                       {"name": "insert", "k": 2, "w": 2, "ph": True, "hold": False}, {"name": "clear"}]})
    return memcheck.finish("C16", tier, t0, results, violations, samples, rule=(
        "TLC model check of MemLocks.tla (phases pre / lock / crit / unlock / post of every operation, nested operations "
        "from user code, non-re-entrant read/write locks): NoCallbackUnderLock and NoDeadlock hold, and the variant with "
        "a callback inside the critical section must violate them (self-test); then one driver script per edge of "
        "bounded MC_MemCache models (all five algorithms, 1-3 shards, phantom inserts, clear / resize / evict_all / "
        "flush) executed on the real cache whose weighter, filter, listener, pipe and value destructor re-enter the "
        "same cache; a script that does not finish within the watchdog bound (120 s for microsecond operations) is the "
        "violation; non-trivial = the script triggers at least one leave notification or holds a handle"),
        assumptions=["re-entrant callbacks perform operations that need the locks but change nothing (never-inserted keys), "
                     "so the specification's expected observations still apply",
                     "callbacks of resize run on the per-shard threads the cache spawns and do not re-enter",
                     "concurrent (multi-threaded) deadlock freedom is exercised by the C02 driver"], engine="locks")
