"""C02 - per-key linearizability of the memory cache under concurrent use: spec/MemLin.tla (monitor +
generator of linearizable histories, model-checked: the monitor accepts all of them and rejects stale
reads), then real threads run seeded random programs on one shared cache (all algorithms, 1-4 shards,
get_or_fetch included, handles held across operations); the stamped invocation/response history is
validated by TLC against Trace_MemLin."""
import concurrent.futures as cf
import json
import os
import time

from . import core, mem, memcheck

ALGOS = ["fifo", "lru", "lfu", "s3fifo", "sieve"]


def mc_memlin(d, tier):
    core.copy_specs(d, {"MemLin", "MC_MemLin"})
    out = []
    cfgs = [dict(threads=[1, 2], ops=5, keys=[1]), dict(threads=[1, 2, 3], ops=4, keys=[1])]
    if tier == "thorough":
        cfgs.append(dict(threads=[1, 2, 3], ops=6, keys=[1]))
        cfgs.append(dict(threads=[1, 2], ops=5, keys=[1, 2]))
    for i, c in enumerate(cfgs):
        for stale in (False, True):
            name = f"ML_{i}_{int(stale)}.cfg"
            with open(os.path.join(d, name), "w") as f:
                f.write("\n".join(["SPECIFICATION Spec", "CONSTANTS", f"  Keys = {core.tla_value(set(c['keys']))}",
                                   f"  Threads = {core.tla_value(set(c['threads']))}", f"  MaxOps = {c['ops']}",
                                   f"  StaleReads = {core.tla_value(stale)}", "INVARIANT Sound", "CHECK_DEADLOCK FALSE"]) + "\n")
            r = core.run_tlc(d, "MC_MemLin", name, workers=6, timeout=1800)
            if r.get("error"):
                raise core.ToolError(f"TLC error in MC_MemLin: {r['error'][:1500]}")
            if stale:
                if not r["violated"]:
                    raise core.ToolError("self-test: the monitor must reject histories with stale reads")
            else:
                core.tlc_must_pass(r, f"MC_MemLin[{c}]")
                out.append({"profile": f"MC_MemLin threads={len(c['threads'])} ops={c['ops']} keys={len(c['keys'])}",
                            "kind": "edge", "algo": "-", "states": r["distinct"], "transitions": r["generated"],
                            "scripts": 0, "matched": 0, "mismatched": 0, "roots": 0, "panics": 0, "nontrivial": 0,
                            "by_field": {}})
    return out


def run_conc(pid, base, algo, shards, threads, runs, seed, reentrant):
    name = f"{algo}-{shards}sh-{threads}thr"
    d = os.path.join(base, name)
    os.makedirs(d, exist_ok=True)
    hashes = {1: 0, 2: 4, 3: 1, 4: 3}          # 1,2 share a shard for shards in {1,2,4}; 3,4 elsewhere
    p = dict(algo=algo, shards=shards, hash=hashes, cfg=dict(mem.DEFAULT_CFG), reentrant=reentrant)
    cfg = mem.harness_cfg(d, p)
    prm = os.path.join(d, "prm.json")
    with open(prm, "w") as f:
        json.dump({"threads": threads, "ops": 40, "runs": runs, "keys": [1, 2, 3, 4], "caps": [2, 4, 8], "fetch": True}, f)
    trace = os.path.join(d, "trace.ndjson")
    violations = []
    try:
        info = json.loads(core.run_harness(["mem-conc", "--cfg", cfg, "--params", prm, "--trace", trace,
                                            "--seed", str(seed)]).strip().splitlines()[-1])
    except core.Hang as e:
        if pid == "C16":
            return ({"profile": name, "kind": "rand", "algo": algo, "scripts": 0, "matched": 0, "mismatched": 0, "roots": 0,
                     "panics": 0, "nontrivial": 0, "by_field": {"hang": 1}},
                    [{"kind": "hang", "bad": "concurrent_operations_deadlocked", "profile": name, "ops": [],
                      "observed": str(e)[:300], "op": {"name": "concurrent"}}], None)
        raise core.ToolError(f"concurrent runs did not finish (a deadlock is C16's subject): {e}")
    core.copy_specs(d, {"MemLin", "Trace_MemLin"})
    with open(os.path.join(d, "TR.cfg"), "w") as f:
        f.write("\n".join(["SPECIFICATION TraceSpec", "CONSTANTS", "  Keys = {1, 2, 3, 4}", f"INVARIANT NoViolation_{pid}",
                           "POSTCONDITION Consumed", "CHECK_DEADLOCK FALSE"]) + "\n")
    sample = None
    if pid != "C16":
        r = core.run_tlc(d, "Trace_MemLin", "TR.cfg", workers=1, trace=trace, dfs_queue=True, timeout=1800)
        if r.get("error"):
            raise core.ToolError(f"TLC error in Trace_MemLin: {r['error'][:2000]}")
        if r["violated"]:
            line_no = int(core.last_var(r["out"], "l")) - 1
            with open(trace) as f:
                lines = f.readlines()
            ev = json.loads(lines[line_no - 1])
            run_lines = [json.loads(x) for x in lines if json.loads(x)["script"] == ev["script"]]
            violations.append({"kind": "predicate", "bad": core.last_var(r["out"], "bad"), "profile": name,
                               "ops": [{k: v for k, v in e.items() if k not in ("script", "step", "mis")}
                                       for e in run_lines if e["step"] <= ev["step"]][-40:],
                               "observed": ev, "op": {"name": ev["e"]}, "seed": seed})
        elif r.get("consumed") != r.get("trace_len"):
            raise core.ToolError(f"Trace_MemLin did not consume the whole trace:\n{r['out'][-1500:]}")
        with open(trace) as f:
            sample = {"profile": name, "history_head": [json.loads(x) for _, x in zip(range(10), f)]}
    return ({"profile": name, "kind": "rand", "algo": algo, "scripts": info["runs"], "matched": 0, "mismatched": 0,
             "roots": 0, "panics": 0, "nontrivial": info["runs"], "by_field": {}, "tlc_trace_scripts": info["runs"],
             "events": info["events"]}, violations, sample)


def conc_jobs(tier):
    runs = 300 if tier == "thorough" else 40
    jobs = []
    for a in ALGOS:
        for shards, threads in ((1, 2), (2, 3), (4, 4)):
            jobs.append((a, shards, threads, runs))
    return jobs


def check(tier):
    t0 = time.time()
    core.build_harness()
    base = core.work_dir(f"C02-{tier}")
    results = mc_memlin(base, tier)
    violations, samples = [], []
    with cf.ThreadPoolExecutor(max_workers=4) as ex:
        futs = [ex.submit(run_conc, "C02", base, a, s, t, r, core.seed(), False) for a, s, t, r in conc_jobs(tier)]
        for f in futs:
            out, vs, sample = f.result()
            results.append(out)
            violations += vs
            if sample and len(samples) < 2:
                samples.append(sample)
    core.log(json.dumps({"runs": sum(r.get("scripts", 0) for r in results), "events": sum(r.get("events", 0) for r in results)}))
    return memcheck.finish("C02", tier, t0, results, violations, samples, rule=(
        "TLC model check of MC_MemLin: every interleaving of invocation / effect / response of 2-3 threads running "
        "inserts, removes and lookups on an atomic register with misses is accepted by the monitor (Sound) and the "
        "variant with stale reads is rejected (self-test); then real threads (2-4) run seeded random programs (insert, "
        "remove, get with held handles, contains, touch, clear, resize, evict_all, get_or_fetch) on one shared cache per "
        "run for each algorithm and 1, 2, 4 shards (keys sharing and spanning shards); the history, ordered by a global "
        "atomic stamp, is validated by TLC against Trace_MemLin: a lookup answering a version whose insert had been "
        "superseded by a write that completed before the lookup started, a version nobody inserted, or a held handle "
        "whose key/value changed is the violation; every run is non-trivial (concurrent reads and writes of shared keys)"),
        assumptions=["the real schedules are those the OS produces (sampled, not enumerated); the enumeration is at model level",
                     "'supersedes' is real-time order of responses and invocations"], engine="conc")
